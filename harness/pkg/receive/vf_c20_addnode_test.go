//go:build verif

package receive

import (
	"fmt"
	"math/rand"
	"sort"
	"testing"

	"github.com/prometheus/client_golang/prometheus"

	"github.com/thanos-io/thanos/pkg/verifhook/vfkit"
)

// C20 - Adding a node to a ketama ring (no availability zones) only moves series onto the new node.

func vfc20NewAddr(rng *rand.Rand, addrs []string) (string, string) {
	sorted := append([]string(nil), addrs...)
	sort.Strings(sorted)
	has := func(a string) bool {
		for _, x := range addrs {
			if x == a {
				return true
			}
		}
		return a == ""
	}
	var cand string
	switch vfkit.Pick(rng, []string{"before", "between", "after", "random", "sibling", "sibling"}) {
	case "sibling": // same host:port family as an existing member: same host other port, or other host same port
		var ok bool
		if cand, ok = vfc18kSibling(rng, vfkit.Pick(rng, addrs)); !ok {
			cand = vfc18kAddresses(rng, 1, "new-")[0]
		}
	case "before":
		cand = "\x01" + vfkit.Str(rng, 2, false)
	case "after":
		cand = sorted[len(sorted)-1] + "z"
	case "between":
		cand = sorted[rng.Intn(len(sorted))] + "0" // directly after one existing address
	default:
		cand = vfc18kAddresses(rng, 1, "new-")[0]
	}
	for has(cand) {
		cand += "x"
	}
	pos := "between"
	if cand < sorted[0] {
		pos = "before"
	} else if cand > sorted[len(sorted)-1] {
		pos = "after"
	}
	return cand, pos
}

func TestVF_C20(t *testing.T) {
	r := vfkit.Start(t, "C20")
	defer r.Finish()
	nSeries := 2000
	r.Rule("case = ketama ring R of 1..12 distinct endpoints without availability zones, RF 1..min(5,n), and R+{e} where the new endpoint e sorts before / between / after the existing addresses, is random, or is a host:port sibling of a member (same host other port / other host same port; members themselves come from 8 address styles incl. families differing only in the port or only in the host) and is inserted at a random position of the list; " +
		"2000 series (tenant from the alphabet) per pair; oracle: for every series the replica set {GetN(k), k<RF} on R+{e} equals the set on R, or equals it with exactly one member replaced by e; " +
		"distinct = ring pair; non-trivial = at least one series moved onto e")
	n := r.N(200, 2500)
	r.Require(int64(n)*int64(nSeries)/2, n/2)
	r.Assume("endpoint addresses are distinct and non-empty; no availability zones (premise of the property)")

	for c := 0; c < n; c++ {
		if !r.Want(c) {
			continue
		}
		rng := r.Rand(c)
		nn := 1 + rng.Intn(12)
		rf := 1 + rng.Intn(min(5, nn))
		addrs := vfc18kAddresses(rng, nn, "")
		newAddr, pos := vfc20NewAddr(rng, addrs)
		var before []Endpoint
		for _, a := range addrs {
			before = append(before, Endpoint{Address: a})
		}
		at := rng.Intn(nn + 1)
		after := append([]Endpoint(nil), before[:at]...)
		after = append(after, Endpoint{Address: newAddr})
		after = append(after, before[at:]...)
		wit := func(extra map[string]any) map[string]any {
			m := map[string]any{"rf": rf, "endpoints": addrs, "new_endpoint": newAddr, "new_sorts": pos, "inserted_at": at}
			for k, v := range extra {
				m[k] = v
			}
			return m
		}
		build := func(eps []Endpoint) (Hashring, bool) {
			var h Hashring
			var err error
			out := vfc19Guarded(len(eps)*SectionsPerNode, vfc19Backstop, func() {
				h, err = NewMultiHashring(AlgorithmKetama, uint64(rf), []HashringConfig{{Hashring: "vf", Endpoints: vfc18kCopyEndpoints(eps)}}, prometheus.NewRegistry())
			})
			switch {
			case out.TimedOut:
				r.Inconclusive("ring construction did not return; run stopped")
				return nil, false
			case out.Lap != nil:
				r.Count("skipped_nonterminating_configs", 1) // impossible without zones; C19's domain
				return nil, true
			case out.Panic != nil:
				r.Violation(c, "panic:construct", fmt.Sprintf("NewMultiHashring panicked: %v", out.Panic), wit(map[string]any{"stack": out.Stack}))
				return nil, true
			case err != nil:
				r.Count("skipped_construct_errors", 1)
				return nil, true
			}
			return h, true
		}
		h1, ok := build(before)
		if !ok {
			return
		}
		h2, ok := build(after)
		if !ok {
			return
		}
		if h1 == nil || h2 == nil {
			continue
		}
		movedOnto := 0
		tenant := vfkit.Str(rng, 3, false)
		r.Guard(c, "getn", wit(nil), func() {
			for s := 0; s < nSeries; s++ {
				ts := vfc18kNumSeries(s)
				if s%50 == 0 {
					ts = vfc18kSeries(rng)
				}
				r.Eval(1)
				old := map[string]struct{}{}
				nw := map[string]struct{}{}
				var oldSeq, newSeq []string
				for k := 0; k < rf; k++ {
					e1, err1 := h1.GetN(tenant, ts, uint64(k))
					e2, err2 := h2.GetN(tenant, ts, uint64(k))
					if err1 != nil || err2 != nil {
						r.Violation(c, "getn-error", fmt.Sprintf("GetN(%d) failed: %v / %v", k, err1, err2), wit(map[string]any{"tenant": tenant, "series": vfc18kFmtSeries(ts)}))
						return
					}
					old[e1.Address] = struct{}{}
					nw[e2.Address] = struct{}{}
					oldSeq = append(oldSeq, e1.Address)
					newSeq = append(newSeq, e2.Address)
				}
				var gained, lost []string
				for a := range nw {
					if _, ok := old[a]; !ok {
						gained = append(gained, a)
					}
				}
				for a := range old {
					if _, ok := nw[a]; !ok {
						lost = append(lost, a)
					}
				}
				sw := func() map[string]any {
					return wit(map[string]any{"tenant": tenant, "series": vfc18kFmtSeries(ts), "replicas_before": oldSeq, "replicas_after": newSeq})
				}
				switch {
				case len(gained) == 0 && len(lost) == 0 && len(nw) == len(old):
					// unchanged
				case len(gained) == 1 && gained[0] == newAddr && len(lost) == 1 && len(nw) == len(old):
					movedOnto++
				default:
					fp := "moved-between-existing-nodes"
					if len(nw) != len(old) {
						fp = "replica-set-size-changed"
					}
					r.Violation(c, fp, fmt.Sprintf("adding %q changed the replica set by +%v -%v (allowed: nothing, or +[new] -[one old])", newAddr, gained, lost), sw())
					return
				}
			}
		})
		r.Count("series_moved_onto_new_node", movedOnto)
		if movedOnto > 0 {
			r.Distinct(fmt.Sprintf("%v|%s|%d|%d", addrs, newAddr, at, rf))
		}
		r.Sample(map[string]any{"nodes": nn, "rf": rf, "new_sorts": pos, "inserted_at": at, "series_moved_onto_new": movedOnto, "of": nSeries})
		h1.Close()
		h2.Close()
	}
}
