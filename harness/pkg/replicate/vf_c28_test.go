//go:build verif

package replicate

// C28 — a block is visible in object storage only when all its files are.
//
// The monitor drives the real block.Upload, shipper.Shipper.Sync, replicationScheme.execute and
// block.Delete against a fault bucket (vfc28Bucket) that numbers every operation, classifies it,
// calls the online invariant checker after every applied mutation and can inject a fault at
// operation k (fail-stop or fail-once; the faulted mutation lost or applied-but-unacknowledged).
// The invariant is evaluated on the underlying in-memory bucket, never through the code under test.

import (
	"context"
	"encoding/json"
	"fmt"
	"io"
	"math/rand"
	"os"
	"path"
	"path/filepath"
	"sort"
	"strconv"
	"strings"
	"sync"
	"testing"
	"time"

	"github.com/go-kit/log"
	"github.com/oklog/ulid/v2"
	"github.com/pkg/errors"
	"github.com/prometheus/client_golang/prometheus"
	"github.com/prometheus/common/promslog"
	"github.com/prometheus/prometheus/model/labels"
	"github.com/prometheus/prometheus/tsdb"
	"github.com/prometheus/prometheus/tsdb/chunkenc"

	"github.com/thanos-io/objstore"

	thanosblock "github.com/thanos-io/thanos/pkg/block"
	"github.com/thanos-io/thanos/pkg/block/metadata"
	"github.com/thanos-io/thanos/pkg/compact"
	thanosmodel "github.com/thanos-io/thanos/pkg/model"
	"github.com/thanos-io/thanos/pkg/shipper"
	"github.com/thanos-io/thanos/pkg/verifhook/vfkit"
)

// ---------------------------------------------------------------------------------------------
// fault bucket

var vfc28ErrInjected = errors.New("vf: injected bucket fault")

type vfc28Op struct {
	Seq     int    `json:"seq"`
	Kind    string `json:"kind"` // upload delete get get_range exists iter attributes
	Mut     bool   `json:"mutating"`
	Name    string `json:"name"`
	Class   string `json:"class"`   // meta.json deletion-mark.json no-compact-mark.json index chunks listing other
	Outcome string `json:"outcome"` // ok | err | fault-lost | fault-applied | stopped | ctx
}

// vfc28Fault: inject at operation number At (1-based, all operations counted).
type vfc28Fault struct {
	At      int  `json:"at"`
	Stop    bool `json:"fail_stop"`            // every later operation fails too (nothing can touch the bucket any more)
	Applied bool `json:"applied_but_no_reply"` // a faulted mutation takes effect, the caller sees an error
}

func (f vfc28Fault) mode() string {
	if f.At == 0 {
		return "none"
	}
	m := "fail-once"
	if f.Stop {
		m = "fail-stop"
	}
	if f.Applied {
		return m + "/applied"
	}
	return m + "/lost"
}

func vfc28Class(name string) string {
	base := path.Base(name)
	switch {
	case strings.HasSuffix(name, "/"):
		return "dir-marker"
	case base == thanosblock.MetaFilename:
		return "meta.json"
	case base == metadata.DeletionMarkFilename:
		return "deletion-mark.json"
	case base == metadata.NoCompactMarkFilename:
		return "no-compact-mark.json"
	case base == thanosblock.IndexFilename:
		return "index"
	case strings.Contains(name, "/"+thanosblock.ChunksDirname+"/"):
		return "chunks"
	}
	return "other"
}

type vfc28Bucket struct {
	inner *objstore.InMemBucket

	mu       sync.Mutex
	seq      int
	ops      []vfc28Op
	fault    vfc28Fault
	stopped  bool
	injected *vfc28Op

	applyMu  sync.Mutex       // serialises mutation + online check
	onMut    func(op vfc28Op) // called with applyMu held after a mutation took effect
	lexIter  bool             // Iter hands out entries in plain lexicographic order, as GCS/S3/Azure/filesystem listings do (the in-memory bucket lists plain objects before sub-directories)
	beforeOp func(op vfc28Op) // called (no lock held) before an admitted read is served: lets the harness act as a concurrent actor on the bucket
}

func vfc28NewBucket(inner *objstore.InMemBucket) *vfc28Bucket { return &vfc28Bucket{inner: inner} }

const (
	vfc28Pass = iota
	vfc28Lost
	vfc28ApplyThenFail
	vfc28Ctx
)

func (b *vfc28Bucket) begin(ctx context.Context, kind, name string, mut bool) (*vfc28Op, int) {
	b.mu.Lock()
	defer b.mu.Unlock()
	b.seq++
	op := &vfc28Op{Seq: b.seq, Kind: kind, Mut: mut, Name: name, Class: vfc28Class(name), Outcome: "ok"}
	if kind == "iter" {
		op.Class = "listing"
	}
	act := vfc28Pass
	switch {
	case b.stopped:
		op.Outcome, act = "stopped", vfc28Lost
	case b.fault.At != 0 && b.fault.At == b.seq:
		if b.fault.Stop {
			b.stopped = true
		}
		if mut && b.fault.Applied {
			op.Outcome, act = "fault-applied", vfc28ApplyThenFail
		} else {
			op.Outcome, act = "fault-lost", vfc28Lost
		}
		b.injected = op
	case ctx.Err() != nil:
		op.Outcome, act = "ctx", vfc28Ctx
	}
	b.ops = append(b.ops, *op)
	return op, act
}

func (b *vfc28Bucket) finish(op *vfc28Op, err error) {
	if err == nil || op.Outcome != "ok" {
		return
	}
	b.mu.Lock()
	b.ops[op.Seq-1].Outcome = "err"
	b.mu.Unlock()
}

// clearFault ends the faulty period: the bucket works again (the process restarted / the outage is over).
func (b *vfc28Bucket) clearFault() {
	b.mu.Lock()
	b.fault = vfc28Fault{}
	b.stopped = false
	b.mu.Unlock()
}

func (b *vfc28Bucket) opCount() int { b.mu.Lock(); defer b.mu.Unlock(); return b.seq }

func (b *vfc28Bucket) opLog() []vfc28Op {
	b.mu.Lock()
	defer b.mu.Unlock()
	return append([]vfc28Op(nil), b.ops...)
}

func (b *vfc28Bucket) injectedOp() *vfc28Op {
	b.mu.Lock()
	defer b.mu.Unlock()
	if b.injected == nil {
		return nil
	}
	o := *b.injected
	return &o
}

func (b *vfc28Bucket) read(ctx context.Context, kind, name string) error {
	op, act := b.begin(ctx, kind, name, false)
	switch act {
	case vfc28Lost:
		return vfc28ErrInjected
	case vfc28Ctx:
		return ctx.Err()
	}
	if b.beforeOp != nil {
		b.beforeOp(*op)
	}
	return nil
}

func (b *vfc28Bucket) mutate(ctx context.Context, kind, name string, apply func() error) error {
	op, act := b.begin(ctx, kind, name, true)
	switch act {
	case vfc28Lost:
		return vfc28ErrInjected
	case vfc28Ctx:
		return ctx.Err()
	}
	b.applyMu.Lock()
	err := apply()
	if err == nil && b.onMut != nil {
		b.onMut(*op)
	}
	b.applyMu.Unlock()
	b.finish(op, err)
	if act == vfc28ApplyThenFail {
		return vfc28ErrInjected
	}
	return err
}

func (b *vfc28Bucket) Provider() objstore.ObjProvider { return b.inner.Provider() }
func (b *vfc28Bucket) Name() string                   { return "vfc28-fault-bucket" }
func (b *vfc28Bucket) Close() error                   { return nil }
func (b *vfc28Bucket) IsObjNotFoundErr(err error) bool {
	return b.inner.IsObjNotFoundErr(err)
}
func (b *vfc28Bucket) IsAccessDeniedErr(err error) bool { return false }
func (b *vfc28Bucket) SupportedIterOptions() []objstore.IterOptionType {
	return b.inner.SupportedIterOptions()
}

func (b *vfc28Bucket) Iter(ctx context.Context, dir string, f func(string) error, o ...objstore.IterOption) error {
	if err := b.read(ctx, "iter", dir); err != nil {
		return err
	}
	if b.lexIter {
		var names []string
		if err := b.inner.Iter(ctx, dir, func(n string) error { names = append(names, n); return nil }, o...); err != nil {
			return err
		}
		sort.Strings(names)
		for _, n := range names {
			if err := f(n); err != nil {
				return err
			}
		}
		return nil
	}
	return b.inner.Iter(ctx, dir, f, o...)
}

func (b *vfc28Bucket) IterWithAttributes(ctx context.Context, dir string, f func(objstore.IterObjectAttributes) error, o ...objstore.IterOption) error {
	if err := b.read(ctx, "iter", dir); err != nil {
		return err
	}
	return b.inner.IterWithAttributes(ctx, dir, f, o...)
}

func (b *vfc28Bucket) Get(ctx context.Context, name string) (io.ReadCloser, error) {
	if err := b.read(ctx, "get", name); err != nil {
		return nil, err
	}
	return b.inner.Get(ctx, name)
}

func (b *vfc28Bucket) GetRange(ctx context.Context, name string, off, length int64) (io.ReadCloser, error) {
	if err := b.read(ctx, "get_range", name); err != nil {
		return nil, err
	}
	return b.inner.GetRange(ctx, name, off, length)
}

func (b *vfc28Bucket) Exists(ctx context.Context, name string) (bool, error) {
	if err := b.read(ctx, "exists", name); err != nil {
		return false, err
	}
	return b.inner.Exists(ctx, name)
}

func (b *vfc28Bucket) Attributes(ctx context.Context, name string) (objstore.ObjectAttributes, error) {
	if err := b.read(ctx, "attributes", name); err != nil {
		return objstore.ObjectAttributes{}, err
	}
	return b.inner.Attributes(ctx, name)
}

func (b *vfc28Bucket) Upload(ctx context.Context, name string, r io.Reader, o ...objstore.ObjectUploadOption) error {
	return b.mutate(ctx, "upload", name, func() error { return b.inner.Upload(ctx, name, r, o...) })
}

func (b *vfc28Bucket) Delete(ctx context.Context, name string) error {
	return b.mutate(ctx, "delete", name, func() error { return b.inner.Delete(ctx, name) })
}

// ---------------------------------------------------------------------------------------------
// oracle

// vfc28MetaDoc is the oracle's own reading of a meta.json (not metadata.Read).
type vfc28MetaDoc struct {
	ULID   string `json:"ulid"`
	Thanos struct {
		Files []struct {
			RelPath   string `json:"rel_path"`
			SizeBytes int64  `json:"size_bytes"`
		} `json:"files"`
	} `json:"thanos"`
}

type vfc28Finding struct {
	Kind  string // "missing" | "size" | "mark-gone"
	Class string
	Text  string
}

// vfc28Invariant evaluates the stated invariant on one bucket state.
// deleting: block id -> "the block carried a deletion mark when its deletion started" for deletions started and not finished.
func vfc28Invariant(objs map[string][]byte, deleting map[string]bool) (findings []vfc28Finding, metas int, listed int, unparsable []string) {
	blocks := map[string][]string{}
	for name := range objs {
		i := strings.IndexByte(name, '/')
		if i <= 0 {
			continue
		}
		if _, err := ulid.Parse(name[:i]); err != nil {
			continue
		}
		blocks[name[:i]] = append(blocks[name[:i]], name)
	}
	ids := make([]string, 0, len(blocks))
	for id := range blocks {
		ids = append(ids, id)
	}
	sort.Strings(ids)
	for _, id := range ids {
		if raw, ok := objs[id+"/"+thanosblock.MetaFilename]; ok {
			metas++
			var doc vfc28MetaDoc
			if err := json.Unmarshal(raw, &doc); err != nil {
				unparsable = append(unparsable, id)
			} else {
				for _, f := range doc.Thanos.Files {
					if f.RelPath == "" || f.RelPath == thanosblock.MetaFilename {
						continue
					}
					listed++
					name := id + "/" + filepath.ToSlash(f.RelPath)
					got, present := objs[name]
					if !present {
						findings = append(findings, vfc28Finding{"missing", vfc28Class(name), fmt.Sprintf("%s/meta.json is present but %s, which it lists (%d bytes), is not in the bucket", id, name, f.SizeBytes)})
					} else if int64(len(got)) != f.SizeBytes {
						findings = append(findings, vfc28Finding{"size", vfc28Class(name), fmt.Sprintf("%s/meta.json lists %s with %d bytes, the bucket object has %d", id, name, f.SizeBytes, len(got))})
					}
				}
			}
		}
		if hadMark, ok := deleting[id]; ok && hadMark {
			if _, markThere := objs[id+"/"+metadata.DeletionMarkFilename]; !markThere {
				names := blocks[id]
				sort.Strings(names)
				for _, n := range names {
					findings = append(findings, vfc28Finding{"mark-gone", vfc28Class(n), fmt.Sprintf("deletion of %s is unfinished: %s is still in the bucket but deletion-mark.json is already gone", id, n)})
					break
				}
			}
		}
	}
	return findings, metas, listed, unparsable
}

// vfc28Exec is one execution of one scenario (fault-free or with one injected fault, plus recovery runs).
type vfc28Exec struct {
	r      *vfkit.Run
	c      int
	sc     *vfc28Scenario
	fault  vfc28Fault
	bkt    *vfc28Bucket
	phase  string
	fired  bool
	evals  int
	nontrv bool // at least one state with a visible meta.json listing files, or an unfinished marked deletion, was inspected

	dmu      sync.Mutex
	deleting map[string]bool
}

func (e *vfc28Exec) deleteStarted(id string) {
	_, had := e.bkt.inner.Objects()[id+"/"+metadata.DeletionMarkFilename]
	e.dmu.Lock()
	if _, ok := e.deleting[id]; !ok { // a re-run of an unfinished deletion keeps what was true when it first started
		e.deleting[id] = had
	}
	e.dmu.Unlock()
}

func (e *vfc28Exec) deleteFinished(id string) {
	e.dmu.Lock()
	delete(e.deleting, id)
	e.dmu.Unlock()
}

func (e *vfc28Exec) listing(objs map[string][]byte) map[string]int {
	out := map[string]int{}
	for k, v := range objs {
		out[k] = len(v)
	}
	return out
}

// check is the online invariant checker: called by the fault bucket after every applied mutation.
func (e *vfc28Exec) check(op vfc28Op) {
	objs := e.bkt.inner.Objects()
	e.dmu.Lock()
	del := make(map[string]bool, len(e.deleting))
	for k, v := range e.deleting {
		del[k] = v
	}
	e.dmu.Unlock()
	findings, metas, listed, unparsable := vfc28Invariant(objs, del)
	e.evals++
	e.r.Eval(1)
	if metas > 0 && listed > 0 {
		e.nontrv = true
	}
	for _, hadMark := range del {
		if hadMark {
			e.nontrv = true
		}
	}
	if metas > 0 && listed == 0 {
		e.r.Count("states_with_meta_listing_no_files", 1)
	}
	for _, id := range unparsable {
		e.r.Inconclusive("meta.json of " + id + " in the bucket is not valid JSON; the invariant cannot be evaluated (" + e.sc.driver + ")")
	}
	if len(findings) == 0 || e.fired {
		return
	}
	e.fired = true
	f := findings[0]
	var fp string
	switch f.Kind {
	case "missing":
		fp = e.sc.driver + ":meta.json-visible:missing-" + f.Class
	case "size":
		fp = e.sc.driver + ":meta.json-visible:size-mismatch-" + f.Class
	default:
		fp = e.sc.driver + ":deletion-mark-removed-before:" + f.Class
	}
	var all []string
	for _, x := range findings {
		all = append(all, x.Text)
	}
	e.r.Violation(e.c, fp, fmt.Sprintf("after %s %s (op #%d, %s, %s, fault %s): %s", op.Kind, op.Name, op.Seq, e.sc.variant, e.phase, e.fault.mode(), f.Text),
		map[string]any{"driver": e.sc.driver, "variant": e.sc.variant, "segments": e.sc.segs, "phase": e.phase, "fault": e.fault, "fault_mode": e.fault.mode(),
			"after_op": op, "findings": all, "bucket": e.listing(objs), "ops": e.bkt.opLog()})
}

// ---------------------------------------------------------------------------------------------
// real blocks

type vfc28Blk struct {
	ID           ulid.ULID
	Dir          string
	Segs         int
	Files        map[string]int64
	FilesVariant string // what the local meta.json carries in thanos.files
}

var vfc28Logger = log.NewNopLogger()

// vfc28BuildBlock writes a real TSDB block (head -> LeveledCompactor.Write) with wantSegs chunk segment files into parent.
func vfc28BuildBlock(parent string, rng *rand.Rand, wantSegs int, mint, maxt int64, ext map[string]string, filesVariant string) (blk vfc28Blk, err error) {
	ctx := context.Background()
	headOpts := tsdb.DefaultHeadOptions()
	headOpts.ChunkDirRoot = filepath.Join(parent, "vfhead")
	headOpts.ChunkRange = 10000000000
	headOpts.StripeSize = 64 // default 16384 stripes make NewHead slow under -race; irrelevant for the block written
	h, err := tsdb.NewHead(nil, nil, nil, nil, headOpts, nil)
	if err != nil {
		return blk, errors.Wrap(err, "head")
	}
	defer func() {
		if cerr := h.Close(); cerr != nil && err == nil {
			err = cerr
		}
		_ = os.RemoveAll(headOpts.ChunkDirRoot)
	}()
	// every series has the same number (<= 110, i.e. one chunk) of random float samples, so all series
	// occupy nearly the same number of bytes; the size of one series is computed with the same XOR
	// encoder and the segment size is chosen so that perSeg series fit into one segment file.
	perSeg := 2 + rng.Intn(2)
	nSeries := wantSegs * perSeg
	nSamples := 40 + rng.Intn(70)
	step := (maxt - mint) / int64(nSamples+1)
	var oneSeries int64
	app := h.Appender(ctx)
	for s := 0; s < nSeries; s++ {
		lset := labels.FromStrings("__name__", "vf_metric", "series", strconv.Itoa(s))
		xc := chunkenc.NewXORChunk()
		xa, err := xc.Appender()
		if err != nil {
			return blk, err
		}
		for i := 0; i < nSamples; i++ {
			v := rng.Float64()
			if _, err := app.Append(0, lset, mint+int64(i)*step, v); err != nil {
				_ = app.Rollback()
				return blk, errors.Wrap(err, "append")
			}
			xa.Append(mint+int64(i)*step, v)
		}
		if n := int64(len(xc.Bytes())) + 10; n > oneSeries {
			oneSeries = n
		}
	}
	if err := app.Commit(); err != nil {
		return blk, errors.Wrap(err, "commit")
	}
	write := func(seg int64) (ulid.ULID, []os.DirEntry, error) {
		c, err := tsdb.NewLeveledCompactorWithOptions(ctx, nil, promslog.NewNopLogger(), []int64{maxt - mint}, nil,
			tsdb.LeveledCompactorOptions{MaxBlockChunkSegmentSize: seg, EnableOverlappingCompaction: true})
		if err != nil {
			return ulid.ULID{}, nil, err
		}
		ids, err := c.Write(parent, h, mint, maxt, nil)
		if err != nil {
			return ulid.ULID{}, nil, err
		}
		if len(ids) != 1 {
			return ulid.ULID{}, nil, errors.Errorf("compactor wrote %d blocks", len(ids))
		}
		des, err := os.ReadDir(filepath.Join(parent, ids[0].String(), thanosblock.ChunksDirname))
		return ids[0], des, err
	}
	seg := 8 + int64(perSeg)*oneSeries + oneSeries/2
	if wantSegs == 1 {
		seg = 8 + int64(nSeries+2)*oneSeries + 4096
	}
	id, des, err := write(seg)
	if err != nil {
		return blk, errors.Wrap(err, "write block")
	}
	for try := 0; try < 3 && (len(des) < 1 || len(des) > 3); try++ {
		_ = os.RemoveAll(filepath.Join(parent, id.String()))
		seg += oneSeries
		if id, des, err = write(seg); err != nil {
			return blk, errors.Wrap(err, "write block")
		}
	}
	if len(des) < 1 || len(des) > 3 {
		return blk, errors.Errorf("could not get 1..3 segment files (got %d)", len(des))
	}
	blk = vfc28Blk{ID: id, Dir: filepath.Join(parent, id.String()), Segs: len(des), Files: map[string]int64{}}
	m, err := metadata.ReadFromDir(blk.Dir)
	if err != nil {
		return blk, errors.Wrap(err, "read meta")
	}
	for _, de := range des {
		fi, err := de.Info()
		if err != nil {
			return blk, err
		}
		blk.Files[thanosblock.ChunksDirname+"/"+de.Name()] = fi.Size()
	}
	fi, err := os.Stat(filepath.Join(blk.Dir, thanosblock.IndexFilename))
	if err != nil {
		return blk, err
	}
	m.Thanos = metadata.Thanos{Labels: ext, Downsample: metadata.ThanosDownsample{Resolution: 0}, Source: metadata.TestSource}
	blk.Files[thanosblock.IndexFilename] = fi.Size()
	m.Thanos.Files = vfc28LocalFilesSection(blk, filesVariant)
	blk.FilesVariant = filesVariant
	if err := m.WriteToDir(vfc28Logger, blk.Dir); err != nil {
		return blk, errors.Wrap(err, "write meta")
	}
	blk.Files[thanosblock.IndexFilename] = fi.Size()
	return blk, nil
}

// vfc28FilesVariants: what the LOCAL meta.json says in thanos.files before the block is handed to the code
// under test. Blocks written by a TSDB have no such section; blocks derived from other blocks (downsampling,
// rewriting, anything that starts from a copy of a downloaded meta.json) or prepared by tools carry one that
// may describe a different block. The invariant on the bucket does not depend on it.
var vfc28FilesVariants = []string{"none", "correct", "stale-from-larger-block", "entries-without-sizes", "entries-for-absent-files"}

func vfc28LocalFilesSection(blk vfc28Blk, variant string) []metadata.File {
	var names []string
	for n := range blk.Files {
		names = append(names, n)
	}
	names = append(names, thanosblock.MetaFilename)
	sort.Strings(names)
	var out []metadata.File
	switch variant {
	case "none":
		return nil
	case "correct":
		for _, n := range names {
			out = append(out, metadata.File{RelPath: n, SizeBytes: blk.Files[n]})
		}
	case "stale-from-larger-block":
		// inherited from the (larger, one more segment) block this one was derived from
		for _, n := range names {
			f := metadata.File{RelPath: n}
			if n != thanosblock.MetaFilename {
				f.SizeBytes = 3*blk.Files[n] + 1024
			}
			out = append(out, f)
		}
		out = append(out, metadata.File{RelPath: fmt.Sprintf("%s/%06d", thanosblock.ChunksDirname, blk.Segs+1), SizeBytes: 4096})
	case "entries-without-sizes":
		// as written by helpers that only record hashes
		for _, n := range names {
			out = append(out, metadata.File{RelPath: n, Hash: &metadata.ObjectHash{Func: metadata.SHA256Func, Value: "0000000000000000000000000000000000000000000000000000000000000000"}})
		}
	case "entries-for-absent-files":
		for _, n := range names {
			out = append(out, metadata.File{RelPath: n, SizeBytes: blk.Files[n]})
		}
		out = append(out, metadata.File{RelPath: thanosblock.ChunksDirname + "/000009", SizeBytes: 123}, metadata.File{RelPath: "tombstones", SizeBytes: 9})
	}
	sort.Slice(out, func(i, j int) bool { return out[i].RelPath < out[j].RelPath })
	return out
}

// ---------------------------------------------------------------------------------------------
// scenarios (drivers)

type vfc28Scenario struct {
	driver  string // names the call site in fingerprints
	variant string
	segs    int
	prep    func(e *vfc28Exec) (*vfc28Bucket, error) // fresh pre-state
	run     func(e *vfc28Exec) error                 // one invocation of the operation (also used for recovery)
}

func vfc28CopyInto(dst *objstore.InMemBucket, objs map[string][]byte) error {
	for k, v := range objs {
		if err := dst.Upload(context.Background(), k, strings.NewReader(string(v))); err != nil {
			return err
		}
	}
	return nil
}

func vfc28UploadScenario(blk vfc28Blk, conc int, hf metadata.HashFunc, pre map[string][]byte, preName string) *vfc28Scenario {
	return &vfc28Scenario{
		driver:  "block.Upload",
		variant: fmt.Sprintf("upload-concurrency=%d/hash=%q/bucket-before=%s/local-files-section=%s", conc, hf, preName, blk.FilesVariant),
		segs:    blk.Segs,
		prep: func(e *vfc28Exec) (*vfc28Bucket, error) {
			in := objstore.NewInMemBucket()
			return vfc28NewBucket(in), vfc28CopyInto(in, pre)
		},
		run: func(e *vfc28Exec) error {
			return thanosblock.Upload(context.Background(), vfc28Logger, e.bkt, blk.Dir, hf, objstore.WithUploadConcurrency(conc))
		},
	}
}

func vfc28ShipperScenario(tsdbDir string, blks []vfc28Blk, conc int, hf metadata.HashFunc, ooo bool) *vfc28Scenario {
	segs := 0
	var fv []string
	for _, b := range blks {
		if b.Segs > segs {
			segs = b.Segs
		}
		fv = append(fv, b.FilesVariant)
	}
	return &vfc28Scenario{
		driver:  "Shipper.Sync",
		variant: fmt.Sprintf("blocks=%d/upload-concurrency=%d/hash=%q/allow-out-of-order=%v/local-files-section=%s", len(blks), conc, hf, ooo, strings.Join(fv, "+")),
		segs:    segs,
		prep: func(e *vfc28Exec) (*vfc28Bucket, error) {
			if err := os.RemoveAll(filepath.Join(tsdbDir, shipper.DefaultMetaFilename)); err != nil {
				return nil, err
			}
			if err := os.RemoveAll(filepath.Join(tsdbDir, "thanos")); err != nil {
				return nil, err
			}
			return vfc28NewBucket(objstore.NewInMemBucket()), nil
		},
		run: func(e *vfc28Exec) error {
			root, err := os.OpenRoot(tsdbDir)
			if err != nil {
				return err
			}
			defer root.Close()
			// a new Shipper per invocation: a restarted process has no memory
			s := shipper.New(e.bkt, root,
				shipper.WithRegisterer(prometheus.NewRegistry()),
				shipper.WithSource(metadata.TestSource),
				shipper.WithHashFunc(hf),
				shipper.WithLabels(func() labels.Labels { return labels.FromStrings("cluster", "vf") }),
				shipper.WithUploadConcurrency(conc),
				shipper.WithAllowOutOfOrderUploads(ooo))
			_, err = s.Sync(context.Background())
			return err
		},
	}
}

var (
	vfc28MinT = time.Unix(0, 0)
	vfc28MaxT = time.Unix(1<<40, 0)
)

func vfc28ReplicateScenario(src *objstore.InMemBucket, nBlocks, segs int) *vfc28Scenario {
	// one fetcher for all runs of the scenario, as the replicator keeps one for all its runs
	from := objstore.WithNoopInstr(src)
	fetcher, ferr := newMetaFetcher(vfc28Logger, from, nil,
		thanosmodel.TimeOrDurationValue{Time: &vfc28MinT}, thanosmodel.TimeOrDurationValue{Time: &vfc28MaxT}, 4, false)
	return &vfc28Scenario{
		driver:  "replicate.execute",
		variant: fmt.Sprintf("source-blocks=%d", nBlocks),
		segs:    segs,
		prep: func(e *vfc28Exec) (*vfc28Bucket, error) {
			return vfc28NewBucket(objstore.NewInMemBucket()), nil
		},
		run: func(e *vfc28Exec) error {
			if ferr != nil {
				return ferr
			}
			m, err := labels.NewMatcher(labels.MatchEqual, "vf", "blk")
			if err != nil {
				return err
			}
			filter := NewBlockFilter(vfc28Logger, labels.Selector{m}, []compact.ResolutionLevel{compact.ResolutionLevelRaw}, []int{1, 2, 3}, nil).Filter
			rs := newReplicationScheme(vfc28Logger, newReplicationMetrics(nil), filter, fetcher, from, e.bkt, nil)
			return rs.execute(context.Background())
		},
	}
}

func vfc28DeleteScenario(id ulid.ULID, segs int, template map[string][]byte, what string) *vfc28Scenario {
	return &vfc28Scenario{
		driver:  "block.Delete",
		variant: "bucket-before=" + what,
		segs:    segs,
		prep: func(e *vfc28Exec) (*vfc28Bucket, error) {
			in := objstore.NewInMemBucket()
			return vfc28NewBucket(in), vfc28CopyInto(in, template)
		},
		run: func(e *vfc28Exec) error {
			e.deleteStarted(id.String())
			err := thanosblock.Delete(context.Background(), vfc28Logger, e.bkt, id)
			if err == nil {
				e.deleteFinished(id.String())
			}
			return err
		},
	}
}

// vfc28ReplicationUnderOriginDeletion: the origin is not quiescent. While replicationScheme.execute runs, another actor
// deletes the block from the ORIGIN bucket: at origin operation k of the replication (every k) the real block.Delete
// runs on the origin - to completion, after marking, or interrupted after j of its own deletions (a deletion in
// progress; every j) - and then the replication goes on. The invariant is the usual one, on the TARGET; replication
// returning an error is fine. A second replication run on the then stable origin follows.
func vfc28ReplicationUnderOriginDeletion(t *testing.T, r *vfkit.Run, c int, blk vfc28Blk, nBlocks int, srcObjs map[string][]byte) {
	ctx := context.Background()
	cnt := prometheus.NewCounter(prometheus.CounterOpts{Name: "vf"})
	newOrigin := func() *objstore.InMemBucket {
		in := objstore.NewInMemBucket()
		if err := vfc28CopyInto(in, srcObjs); err != nil {
			vfc28Fatal(t, r, "%v", err)
		}
		return in
	}
	type interference struct {
		class  string // names the fingerprint
		name   string
		mark   bool
		lex    bool // the deleter sees lexicographic listings
		stopAt int  // operation of block.Delete at which the deleter stops (0: runs to completion)
	}
	inter := []interference{{class: "complete", name: "block.Delete-to-completion"}, {class: "complete", name: "MarkForDeletion+block.Delete-to-completion", mark: true}}
	// the deleter's own operation sequence (for the in-progress variants), for both listing orders
	for _, lex := range []bool{false, true} {
		dl := vfc28NewBucket(newOrigin())
		dl.lexIter = lex
		if err := thanosblock.Delete(ctx, vfc28Logger, dl, blk.ID); err != nil {
			vfc28Fatal(t, r, "plain delete: %v", err)
		}
		var mutSeqs []int
		for _, o := range dl.opLog() {
			if o.Mut && o.Outcome == "ok" {
				mutSeqs = append(mutSeqs, o.Seq)
			}
		}
		for j := 1; j < len(mutSeqs); j++ {
			it := interference{class: "in-progress", name: fmt.Sprintf("block.Delete-in-progress(%d-of-%d-deletions-done)", j, len(mutSeqs)), stopAt: mutSeqs[j], mark: j%2 == 0, lex: lex}
			if lex {
				it.class, it.name = "in-progress(lexicographic-listing)", it.name+"/deleter-sees-lexicographic-listings"
			}
			inter = append(inter, it)
		}
	}
	m, err := labels.NewMatcher(labels.MatchEqual, "vf", "blk")
	if err != nil {
		vfc28Fatal(t, r, "%v", err)
	}
	filter := NewBlockFilter(vfc28Logger, labels.Selector{m}, []compact.ResolutionLevel{compact.ResolutionLevelRaw}, []int{1, 2, 3}, nil).Filter
	replicate := func(origin *vfc28Bucket, target *vfc28Bucket) error {
		from := objstore.WithNoopInstr(origin)
		fetcher, err := newMetaFetcher(vfc28Logger, from, nil,
			thanosmodel.TimeOrDurationValue{Time: &vfc28MinT}, thanosmodel.TimeOrDurationValue{Time: &vfc28MaxT}, 4, false)
		if err != nil {
			return err
		}
		return newReplicationScheme(vfc28Logger, newReplicationMetrics(nil), filter, fetcher, from, target, nil).execute(ctx)
	}
	run := func(k int, it *interference) (*vfc28Exec, int) {
		sc := &vfc28Scenario{driver: "replicate.execute+origin-quiescent", variant: "origin-quiescent", segs: blk.Segs}
		if it != nil {
			sc.driver = "replicate.execute+origin-block.Delete-" + it.class
			sc.variant = fmt.Sprintf("source-blocks=%d/at-origin-op=%d/%s", nBlocks, k, it.name)
		}
		e := &vfc28Exec{r: r, c: c, sc: sc, deleting: map[string]bool{}, phase: "replication-run-with-concurrent-origin-deletion"}
		e.bkt = vfc28NewBucket(objstore.NewInMemBucket())
		e.bkt.onMut = e.check
		inner := newOrigin()
		origin := vfc28NewBucket(inner)
		if it != nil {
			origin.beforeOp = func(op vfc28Op) {
				if op.Seq != k {
					return
				}
				if it.mark {
					_ = thanosblock.MarkForDeletion(ctx, vfc28Logger, inner, blk.ID, "vf", cnt)
				}
				del := vfc28NewBucket(inner)
				del.lexIter = it.lex
				if it.stopAt > 0 {
					del.fault = vfc28Fault{At: it.stopAt, Stop: true}
				}
				_ = thanosblock.Delete(ctx, vfc28Logger, del, blk.ID)
			}
		}
		_ = replicate(origin, e.bkt)
		n := origin.opCount()
		origin.beforeOp = nil
		e.phase = "second-replication-run-on-the-now-stable-origin"
		_ = replicate(origin, e.bkt)
		return e, n
	}
	base, n := run(0, nil)
	if !base.nontrv {
		r.Inconclusive("replication from a quiescent origin did not make the block visible in the target")
		return
	}
	for k := 1; k <= n; k++ {
		for i := range inter {
			e, _ := run(k, &inter[i])
			r.Count("replications_with_concurrent_origin_deletion", 1)
			if e.nontrv {
				r.Count("replications_with_concurrent_origin_deletion:block_became_visible_in_target", 1)
			}
			if e.evals > 0 {
				r.Distinct(fmt.Sprintf("%d|origin-deletion|%d|%s", c, k, inter[i].name))
			}
		}
	}
}

// vfc28Fatal: a harness set-up failure makes the run inconclusive, never "held".
func vfc28Fatal(t *testing.T, r *vfkit.Run, format string, args ...any) {
	msg := "vfc28 harness set-up failed: " + fmt.Sprintf(format, args...)
	r.Inconclusive(msg)
	t.Fatal(msg)
}

// vfc28RunScenario: one fault-free execution (every prefix inspected online), then one execution per
// (operation k, fault mode) followed by fault-free re-invocations until the operation succeeds.
func vfc28RunScenario(t *testing.T, r *vfkit.Run, c int, sc *vfc28Scenario) {
	t0 := time.Now()
	defer func() { r.Count("wall_ms(informational):"+sc.driver, int(time.Since(t0).Milliseconds())) }()
	exec := func(f vfc28Fault) (*vfc28Exec, error) {
		e := &vfc28Exec{r: r, c: c, sc: sc, fault: f, deleting: map[string]bool{}, phase: "faulted-run"}
		if f.At == 0 {
			e.phase = "fault-free-run"
		}
		b, err := sc.prep(e)
		if err != nil {
			vfc28Fatal(t, r, "scenario %s %s: %v", sc.driver, sc.variant, err)
		}
		e.bkt = b
		b.onMut = e.check
		b.fault = f
		return e, sc.run(e)
	}
	base, err := exec(vfc28Fault{})
	if err != nil {
		r.Inconclusive(fmt.Sprintf("%s (%s) fails without any injected fault: %v", sc.driver, sc.variant, err))
		return
	}
	baseOps := base.bkt.opLog()
	r.Count("fault_free_runs", 1)
	r.Count("ops_in_fault_free_runs", len(baseOps))
	if base.nontrv {
		r.Distinct(fmt.Sprintf("%d|%s|%s|none", c, sc.driver, sc.variant))
	}
	r.Sample(map[string]any{"driver": sc.driver, "variant": sc.variant, "segments": sc.segs, "ops": len(baseOps), "states_inspected": base.evals})
	for k := 1; k <= len(baseOps); k++ {
		modes := []vfc28Fault{{At: k, Stop: true}, {At: k}}
		if baseOps[k-1].Mut {
			modes = append(modes, vfc28Fault{At: k, Stop: true, Applied: true}, vfc28Fault{At: k, Applied: true})
		}
		for _, f := range modes {
			e, _ := exec(f)
			inj := e.bkt.injectedOp()
			r.Count("fault_runs", 1)
			// recovery: the outage is over / the process restarted; the operation is invoked again
			e.bkt.clearFault()
			recovered := false
			for i := 1; i <= 3; i++ {
				e.phase = fmt.Sprintf("recovery-run-%d", i)
				if err := sc.run(e); err == nil {
					recovered = true
					break
				}
			}
			if !recovered {
				r.Count("recovery_did_not_succeed_in_3_runs", 1)
			}
			if inj != nil {
				r.Count("faults_injected", 1)
				r.Count("fault:"+f.mode(), 1)
				r.Count("fault_on:"+inj.Kind+":"+inj.Class, 1)
				if e.nontrv {
					r.Distinct(fmt.Sprintf("%d|%s|%s|%s|%d", c, sc.driver, sc.variant, f.mode(), k))
				}
			}
		}
	}
}

func TestVF_C28(t *testing.T) {
	r := vfkit.Start(t, "C28")
	defer r.Finish()
	r.Rule("case = one real TSDB block with 1..3 chunk segment files (plus, in half of the cases, a second one) whose LOCAL meta.json carries no thanos.files section | a correct one | a stale one inherited from a larger block | entries without sizes | entries for files that do not exist (cycled over the cases) x 4 drivers: block.Upload (concurrency 1|4), shipper.Shipper.Sync, replicationScheme.execute (invariant on the destination; once with a quiescent origin and target-side faults, and once with a CONCURRENT ORIGIN DELETION: at every origin operation k of the replication the real block.Delete runs on the origin to completion | after marking | interrupted after every j of its own deletions, then replication continues and runs a second time), block.Delete (with/without deletion mark, no-compact mark, already partial); " +
		"per driver one fault-free run and, for EVERY bucket operation k of that run, runs with a fault at k (fail-stop|fail-once x mutation lost|applied-without-reply) each followed by re-invocation until success; " +
		"oracle = online checker called by the fault bucket after every applied mutation, reading the in-memory bucket directly: every block whose meta.json is present has every file meta.json lists with the recorded size; a block whose deletion started with a deletion mark keeps the mark while any other object of it exists; " +
		"evaluation = one inspected bucket state; distinct = (case, driver variant, fault mode, k) of runs in which the fault was really injected and a state with a visible meta.json (listing files) or an unfinished marked deletion was inspected")
	n := r.N(10, 200)
	r.Require(int64(n)*300, n*40)
	r.Assume("an object becomes visible atomically (objstore contract; the in-memory bucket commits an upload in one step)")
	r.Assume("crash at point k == the operation sequence stops after a prefix: every prefix is inspected online; fail-stop runs add the error/cleanup paths; real SIGKILL adds nothing for a bucket-state invariant and is not used")
	r.Assume("replication source blocks are complete when replication starts (they were uploaded without faults); the only concurrent origin actor is block.Delete, whose states are those block.Delete itself produces on this bucket (the in-memory bucket lists plain objects before sub-directories, so index is deleted before the chunk segments)")
	tmp := t.TempDir()
	for c := 0; c < n; c++ {
		if !r.Want(c) {
			continue
		}
		rng := r.Rand(c)
		cdir := filepath.Join(tmp, fmt.Sprintf("c%d", c))
		tsdbDir := filepath.Join(cdir, "tsdb")
		if err := os.MkdirAll(tsdbDir, 0o750); err != nil {
			vfc28Fatal(t, r, "%v", err)
		}
		ext := map[string]string{"vf": "blk"}
		tBuild := time.Now()
		segs := 1 + c%3
		base := int64(1_600_000_000_000)
		blk, err := vfc28BuildBlock(tsdbDir, rng, segs, base, base+7_200_000, ext, vfc28FilesVariants[c%len(vfc28FilesVariants)])
		if err != nil {
			vfc28Fatal(t, r, "building block: %v", err)
		}
		blks := []vfc28Blk{blk}
		if rng.Intn(2) == 0 {
			b2, err := vfc28BuildBlock(tsdbDir, rng, 1+rng.Intn(2), base+7_200_000, base+14_400_000, ext, vfkit.Pick(rng, vfc28FilesVariants))
			if err != nil {
				vfc28Fatal(t, r, "building block: %v", err)
			}
			blks = append(blks, b2)
		}
		r.Count(fmt.Sprintf("blocks_with_%d_segments", blk.Segs), 1)
		for _, b := range blks {
			r.Count("local_meta_files_section:"+b.FilesVariant, 1)
		}
		r.Count("wall_ms(informational):building-blocks", int(time.Since(tBuild).Milliseconds()))

		// complete copies in a plain bucket: replication source and deletion template
		src := objstore.NewInMemBucket()
		for _, b := range blks {
			if err := thanosblock.Upload(context.Background(), vfc28Logger, src, b.Dir, metadata.NoneFunc); err != nil {
				vfc28Fatal(t, r, "plain upload: %v", err)
			}
		}
		srcObjs := src.Objects()
		other := map[string][]byte{}
		if len(blks) > 1 {
			for k, v := range srcObjs {
				if strings.HasPrefix(k, blks[1].ID.String()+"/") {
					other[k] = v
				}
			}
		}

		var scs []*vfc28Scenario
		hf := vfkit.Pick(rng, []metadata.HashFunc{metadata.NoneFunc, metadata.SHA256Func})
		// 1. block.Upload
		pre, preName := map[string][]byte{}, "empty"
		if len(other) > 0 && rng.Intn(2) == 0 {
			pre, preName = other, "another-complete-block"
		}
		scs = append(scs, vfc28UploadScenario(blk, vfkit.Pick(rng, []int{1, 4}), hf, pre, preName))
		// 2. Shipper.Sync
		scs = append(scs, vfc28ShipperScenario(tsdbDir, blks, vfkit.Pick(rng, []int{0, 4}), hf, rng.Intn(2) == 0))
		// 3. replication
		scs = append(scs, vfc28ReplicateScenario(src, len(blks), blk.Segs))
		if r.Thorough() || c%2 == 0 { // quick tier: every second block
			r.Guard(c, "replicate.execute+origin-block-deletion", map[string]any{"segments": blk.Segs}, func() {
				t0 := time.Now()
				vfc28ReplicationUnderOriginDeletion(t, r, c, blk, len(blks), srcObjs)
				r.Count("wall_ms(informational):replicate.execute+origin-block-deletion", int(time.Since(t0).Milliseconds()))
			})
		}
		// 4. block.Delete
		tmpl := objstore.NewInMemBucket()
		if err := vfc28CopyInto(tmpl, srcObjs); err != nil {
			vfc28Fatal(t, r, "%v", err)
		}
		what := "complete-block"
		cnt := prometheus.NewCounter(prometheus.CounterOpts{Name: "vf"})
		switch rng.Intn(5) {
		case 0: // no deletion mark
		case 1, 2:
			if err := thanosblock.MarkForDeletion(context.Background(), vfc28Logger, tmpl, blk.ID, "vf", cnt); err != nil {
				vfc28Fatal(t, r, "%v", err)
			}
			what += "+deletion-mark"
		case 3:
			if err := thanosblock.MarkForDeletion(context.Background(), vfc28Logger, tmpl, blk.ID, "vf", cnt); err != nil {
				vfc28Fatal(t, r, "%v", err)
			}
			if err := thanosblock.MarkForNoCompact(context.Background(), vfc28Logger, tmpl, blk.ID, metadata.ManualNoCompactReason, "vf", cnt); err != nil {
				vfc28Fatal(t, r, "%v", err)
			}
			what += "+deletion-mark+no-compact-mark"
		default: // a partial upload (no meta.json) that was marked: the cleaner deletes it through block.Delete as well
			if err := thanosblock.MarkForDeletion(context.Background(), vfc28Logger, tmpl, blk.ID, "vf", cnt); err != nil {
				vfc28Fatal(t, r, "%v", err)
			}
			if err := tmpl.Delete(context.Background(), blk.ID.String()+"/"+thanosblock.MetaFilename); err != nil {
				vfc28Fatal(t, r, "%v", err)
			}
			what = "partial-block-without-meta.json+deletion-mark"
		}
		scs = append(scs, vfc28DeleteScenario(blk.ID, blk.Segs, tmpl.Objects(), what))

		for _, sc := range scs {
			sc := sc
			r.Guard(c, sc.driver, map[string]any{"driver": sc.driver, "variant": sc.variant, "segments": sc.segs}, func() {
				vfc28RunScenario(t, r, c, sc)
			})
		}
		_ = os.RemoveAll(cdir)
	}
}
