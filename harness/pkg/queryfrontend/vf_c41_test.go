//go:build verif

package queryfrontend

import (
	"context"
	"fmt"
	"math/rand"
	"sort"
	"strings"
	"sync"
	"testing"
	"time"

	"github.com/prometheus/prometheus/promql/parser"
	"github.com/weaveworks/common/user"

	"github.com/thanos-io/thanos/internal/cortex/cortexpb"
	"github.com/thanos-io/thanos/internal/cortex/querier/queryrange"
	"github.com/thanos-io/thanos/pkg/verifhook/vfkit"
)

// ---------------------------------------------------------------------------------------------
// C41 — splitting a query by interval evaluates every step exactly once.
// ---------------------------------------------------------------------------------------------

type vfc41Limits struct{ par int }

func (vfc41Limits) MaxQueryLookback(string) time.Duration  { return 0 }
func (vfc41Limits) MaxQueryLength(string) time.Duration    { return 0 }
func (l vfc41Limits) MaxQueryParallelism(string) int       { return l.par }
func (vfc41Limits) MaxCacheFreshness(string) time.Duration { return time.Minute }

// durations (ms) the generator draws steps and intervals from: 1 ms .. 30 d, round and odd values.
var vfc41Durs = []int64{
	1, 2, 3, 7, 10, 250, 999, 1000, 1001, 5000, 15000, 30000, 59000, 60000, 61000, 300000, 420000, 900000,
	1020000, 3599000, 3600000, 3601000, 7200000, 6 * 3600000, 12 * 3600000, 86400000 - 1, 86400000, 86400000 + 1000,
	25 * 3600000, 3 * 86400000, 7 * 86400000, 30 * 86400000,
}

type vfc41Case struct {
	Kind     string `json:"kind"` // range | labels | series
	Start    int64  `json:"start_ms"`
	End      int64  `json:"end_ms"`
	Step     int64  `json:"step_ms"`
	Interval int64  `json:"interval_ms"`
	Query    string `json:"query"`
	Class    string `json:"class"`
}

func vfc41Dur(rng *rand.Rand) int64 {
	switch rng.Intn(10) {
	case 0: // arbitrary odd value
		return 1 + rng.Int63n(40*86400000)
	case 1:
		return 1 + rng.Int63n(120000)
	default:
		return vfc41Durs[rng.Intn(len(vfc41Durs))]
	}
}

// vfc41Gen draws one request. The number of evaluation steps and of interval crossings is bounded
// (<= ~1500) so that every case is cheap; everything else is free.
func vfc41Gen(rng *rand.Rand) vfc41Case {
	var c vfc41Case
	switch rng.Intn(10) {
	case 0:
		c.Kind = "labels"
	case 1:
		c.Kind = "series"
	default:
		c.Kind = "range"
	}
	c.Interval = vfc41Dur(rng)
	c.Step = vfc41Dur(rng)
	rel := rng.Intn(8)
	switch rel {
	case 0:
		c.Step = c.Interval
		c.Class = "step=interval"
	case 1:
		c.Step = c.Interval*int64(1+rng.Intn(4)) + int64(rng.Intn(3))*int64(rng.Intn(2000))
		c.Class = "step>interval"
	case 2:
		if c.Interval > 1 {
			d := int64(2 + rng.Intn(60))
			c.Step = c.Interval / d
			if c.Step < 1 {
				c.Step = 1
			}
		}
		c.Class = "step|interval"
	default:
		c.Class = "free"
	}
	if c.Step < 1 {
		c.Step = 1
	}
	// base
	var base int64
	switch rng.Intn(6) {
	case 0:
		base = 0
	case 1:
		base = 1_609_459_200_000 // 2021-01-01
	case 2:
		base = 9_000_000_000_000 + rng.Int63n(1_000_000_000_000) // far future, large values
	case 3:
		base = rng.Int63n(1_700_000_000_000)
	default:
		base = 1_600_000_000_000 + rng.Int63n(100_000_000_000)
	}
	switch rng.Intn(5) {
	case 0:
		base = base / c.Step * c.Step
		c.Class += "/start%step=0"
	case 1:
		base = base / c.Interval * c.Interval
		c.Class += "/start%interval=0"
	case 2:
		base = base/c.Interval*c.Interval + c.Interval - 1 - int64(rng.Intn(2))*rng.Int63n(c.Step+1)
		if base < 0 {
			base = 0
		}
		c.Class += "/start-before-boundary"
	default:
		c.Class += "/start-unaligned"
	}
	c.Start = base
	// length: bounded number of steps and of intervals
	maxLen := int64(1500)
	var length int64
	unit := c.Step
	if c.Kind != "range" || c.Interval > c.Step {
		if rng.Intn(2) == 0 || c.Kind != "range" {
			unit = c.Interval
		}
	}
	nUnits := int64(0)
	switch rng.Intn(8) {
	case 0:
		nUnits = 0
	case 1:
		nUnits = 1
	case 2:
		nUnits = int64(rng.Intn(4))
	case 3:
		if rng.Intn(3) == 0 {
			nUnits = int64(rng.Intn(int(maxLen)))
		} else {
			nUnits = int64(rng.Intn(200))
		}
	default:
		nUnits = int64(rng.Intn(40))
	}
	length = nUnits * unit
	switch rng.Intn(4) {
	case 0: // exact multiple
	case 1:
		length += rng.Int63n(unit + 1)
	case 2:
		if length > 0 {
			length--
		}
	default:
		length += rng.Int63n(c.Step + 1)
	}
	// enforce bounds
	if length/c.Step > maxLen {
		length = c.Step * maxLen
	}
	if length/c.Interval > maxLen {
		length = c.Interval * maxLen
	}
	if rng.Intn(12) == 0 {
		length = 0
		c.Class += "/start=end"
	} else if length < c.Step {
		c.Class += "/shorter-than-step"
	}
	c.End = c.Start + length
	c.Query = vfkit.Pick(rng, []string{"foo", "foo", "foo", "sum by (a) (rate(foo[5m]))", "foo @ start()", "sum(foo @ end())", "max_over_time(foo[10m:1m] @ start())"})
	return c
}

func (c vfc41Case) request() queryrange.Request {
	switch c.Kind {
	case "labels":
		return &ThanosLabelsRequest{Path: "/api/v1/labels", Start: c.Start, End: c.End}
	case "series":
		return &ThanosSeriesRequest{Path: "/api/v1/series", Start: c.Start, End: c.End, Dedup: true}
	}
	return &ThanosQueryRangeRequest{Path: "/api/v1/query_range", Start: c.Start, End: c.End, Step: c.Step, Query: c.Query, Dedup: true}
}

type vfc41Sub struct{ S, E, Step int64 }

// vfc41CheckRange decides a set of range sub-requests against the original (start,end,step):
// the multiset of evaluation timestamps must be exactly {start + k*step <= end}.
// Returns fingerprint suffix and text, "" when it holds.
func vfc41CheckRange(start, end, step int64, subs []vfc41Sub) (string, string) {
	if len(subs) == 0 {
		return "timestamp-missing:no-subrequests", "no sub-request produced"
	}
	for i, s := range subs {
		if s.Step != step {
			return "step-changed", fmt.Sprintf("sub-request #%d has step %d, original %d", i, s.Step, step)
		}
		if s.E < s.S {
			return "subrequest-end-before-start", fmt.Sprintf("sub-request #%d [%d,%d]", i, s.S, s.E)
		}
		if (s.S-start)%step != 0 {
			return "subquery-misaligned", fmt.Sprintf("sub-request #%d starts at %d: (start_i-start) mod step = %d", i, s.S, (s.S-start)%step)
		}
		if s.S < start {
			return "timestamp-added", fmt.Sprintf("sub-request #%d starts at %d before the original start %d", i, s.S, start)
		}
	}
	ss := append([]vfc41Sub(nil), subs...)
	sort.Slice(ss, func(i, j int) bool { return ss[i].S < ss[j].S })
	lastOf := func(s vfc41Sub) int64 { return s.S + (s.E-s.S)/step*step }
	wantLast := start + (end-start)/step*step
	next := start // next expected timestamp
	for i, s := range ss {
		if s.S > next {
			return "timestamp-missing", fmt.Sprintf("timestamp %d is evaluated by no sub-request (sub-request #%d starts at %d)", next, i, s.S)
		}
		if s.S < next {
			return "timestamp-duplicated", fmt.Sprintf("timestamp %d is evaluated by two sub-requests", s.S)
		}
		next = lastOf(s) + step
	}
	if next-step > wantLast {
		return "timestamp-added", fmt.Sprintf("timestamp %d > last original timestamp %d is evaluated", next-step, wantLast)
	}
	if next-step < wantLast {
		return "timestamp-missing", fmt.Sprintf("timestamps after %d up to %d are evaluated by no sub-request", next-step, wantLast)
	}
	return "", ""
}

// vfc41CheckCover decides label/series sub-ranges: together they must cover every instant of [start,end].
func vfc41CheckCover(start, end int64, subs []vfc41Sub) (string, string) {
	if len(subs) == 0 {
		if start == end {
			return "range-not-covered:start=end:no-subrequests", fmt.Sprintf("no sub-request at all for the instant range [%d,%d]", start, end)
		}
		return "range-not-covered:no-subrequests", "no sub-request produced"
	}
	ss := append([]vfc41Sub(nil), subs...)
	sort.Slice(ss, func(i, j int) bool { return ss[i].S < ss[j].S })
	if ss[0].S > start {
		return "range-not-covered:head", fmt.Sprintf("first sub-range starts at %d > %d", ss[0].S, start)
	}
	reach := ss[0].E
	for _, s := range ss[1:] {
		if s.S > reach+1 {
			return "range-not-covered:gap", fmt.Sprintf("nothing covers (%d,%d)", reach, s.S)
		}
		if s.E > reach {
			reach = s.E
		}
	}
	if reach < end {
		return "range-not-covered:tail", fmt.Sprintf("sub-ranges end at %d < %d", reach, end)
	}
	return "", ""
}

// vfc41CheckQuery: sub-request query must mean the same as the original evaluated over [start,end]
// (@ start()/end() pinned to the ORIGINAL start/end, everything else textually the same expression).
func vfc41CheckQuery(orig string, start, end int64, sub string, subStart, subEnd int64) string {
	oe, err := parser.ParseExpr(orig)
	if err != nil {
		return ""
	}
	se, err := parser.ParseExpr(sub)
	if err != nil {
		return fmt.Sprintf("sub-request query %q does not parse: %v", sub, err)
	}
	pin := func(e parser.Expr, start, end int64) string {
		parser.Inspect(e, func(n parser.Node, _ []parser.Node) error {
			switch v := n.(type) {
			case *parser.VectorSelector:
				if v.StartOrEnd == parser.START {
					s := start
					v.Timestamp, v.StartOrEnd = &s, 0
				} else if v.StartOrEnd == parser.END {
					s := end
					v.Timestamp, v.StartOrEnd = &s, 0
				}
			case *parser.SubqueryExpr:
				if v.StartOrEnd == parser.START {
					s := start
					v.Timestamp, v.StartOrEnd = &s, 0
				} else if v.StartOrEnd == parser.END {
					s := end
					v.Timestamp, v.StartOrEnd = &s, 0
				}
			}
			return nil
		})
		return e.String()
	}
	// start()/end() left in a sub-request would mean the sub-request's own range
	if a, b := pin(oe, start, end), pin(se, subStart, subEnd); a != b {
		return fmt.Sprintf("sub-request query %q means %q, the original means %q", sub, b, a)
	}
	return ""
}

func vfc41Subs(reqs []queryrange.Request) []vfc41Sub {
	out := make([]vfc41Sub, len(reqs))
	for i, q := range reqs {
		out[i] = vfc41Sub{q.GetStart(), q.GetEnd(), q.GetStep()}
	}
	return out
}

func TestVF_C41(t *testing.T) {
	r := vfkit.Start(t, "C41")
	defer r.Finish()
	r.Rule("case = batch of 50 generated requests (80% range, 10% labels, 10% series): step and interval from 1 ms..30 d (round, odd, step=interval, step>interval, step|interval), " +
		"start at 0 / 2021 / far future, aligned to step / to interval / just before an interval boundary / unaligned, length 0 (start==end), shorter than a step, 0..1500 steps or intervals, +-1 ms around multiples; " +
		"real splitQuery (every request) and real SplitByIntervalMiddleware.Do with a recording next, with and without StepAlignMiddleware in front (every 8th request with <= 300 sub-requests); " +
		"oracle (arithmetic, exact): sorted sub-requests chain start, last_i+step, ... up to the original's last timestamp <=> multiset of evaluation timestamps equals the original's; every sub-request start = start mod step, same step, same query meaning (@start()/@end() pinned to the original range); " +
		"label/series: union of sub-ranges covers every instant of [start,end]; distinct = (kind,start,end,step,interval); non-trivial = split into >= 2 sub-requests, or start==end, or step >= interval")
	n := r.N(1200, 40000)
	r.Require(int64(n)*50, n*10)
	r.Assume("timestamps are non-negative milliseconds (the codecs reject nothing else relevant; negative times are outside the workload)")
	ctx := user.InjectOrgID(context.Background(), "t")
	rangeCodec := NewThanosQueryRangeCodec(true)
	labelsCodec := NewThanosLabelsCodec(true, 2*time.Hour)
	for c := 0; c < n; c++ {
		if !r.Want(c) {
			continue
		}
		rng := r.Rand(c)
		for k := 0; k < 50; k++ {
			cs := vfc41Gen(rng)
			viaMw := k%8 == 7
			withAlign := viaMw && rng.Intn(2) == 0
			par := 1 + rng.Intn(4)
			r.Guard(c, "splitQuery", cs, func() { vfc41Run(r, c, cs, ctx, rangeCodec, labelsCodec, viaMw, withAlign, par) })
		}
	}
}

func vfc41Run(r *vfkit.Run, c int, cs vfc41Case, ctx context.Context, rangeCodec *queryRangeCodec, labelsCodec *labelsCodec, viaMw, withAlign bool, par int) {
	req := cs.request()
	interval := time.Duration(cs.Interval) * time.Millisecond
	wit := func(subs []vfc41Sub, extra string) map[string]any {
		show := subs
		if len(show) > 12 {
			show = append(append([]vfc41Sub(nil), subs[:6]...), subs[len(subs)-6:]...)
		}
		return map[string]any{"request": cs, "sub_requests_total": len(subs), "sub_requests_first_last": show, "via": extra}
	}
	reqs, err := splitQuery(req, interval)
	r.Eval(1)
	if err != nil {
		r.Violation(c, cs.Kind+":split-error", fmt.Sprintf("splitQuery failed on a valid request: %v", err), wit(nil, "splitQuery"))
		return
	}
	subs := vfc41Subs(reqs)
	nontrivial := len(subs) >= 2 || cs.Start == cs.End || cs.Step >= cs.Interval
	if nontrivial {
		r.Distinct(fmt.Sprintf("%s|%d|%d|%d|%d", cs.Kind, cs.Start, cs.End, cs.Step, cs.Interval))
	}
	r.Count("subrequests_total", len(subs))
	if len(subs) >= 2 {
		r.Count("requests_split_in_2+", 1)
	}
	if cs.Start == cs.End {
		r.Count("start==end", 1)
	}
	if cs.Kind == "range" && cs.Step > cs.Interval {
		r.Count("step>interval", 1)
	}
	r.Sample(map[string]any{"request": cs, "sub_requests": len(subs)})
	if cs.Kind == "range" {
		if fp, what := vfc41CheckRange(cs.Start, cs.End, cs.Step, subs); fp != "" {
			r.Violation(c, "range:"+fp, what+" ("+cs.Class+")", wit(subs, "splitQuery"))
			return
		}
		seenQ := map[string]bool{}
		for i, q := range reqs {
			qk := q.GetQuery()
			if strings.Contains(qk, "start()") || strings.Contains(qk, "end()") {
				qk = fmt.Sprintf("%s|%d|%d", qk, q.GetStart(), q.GetEnd()) // its meaning depends on the sub-range
				if i > 3 && i < len(reqs)-2 {
					continue // first and last few sub-requests are enough for a text that is wrong everywhere
				}
			}
			if !seenQ[qk] { // every distinct sub-request query text is decided once
				seenQ[qk] = true
				if what := vfc41CheckQuery(cs.Query, cs.Start, cs.End, q.GetQuery(), q.GetStart(), q.GetEnd()); what != "" {
					r.Violation(c, "range:query-changed", fmt.Sprintf("sub-request #%d: %s", i, what), wit(subs, "splitQuery"))
					return
				}
			}
		}
	} else {
		if fp, what := vfc41CheckCover(cs.Start, cs.End, subs); fp != "" {
			r.Violation(c, cs.Kind+":"+fp, what+" ("+cs.Class+")", wit(subs, "splitQuery"))
			return
		}
	}
	if !viaMw || len(subs) > 300 || (cs.End-cs.Start)/cs.Step > 1500 {
		return
	}
	// through the real middleware with a recording next handler
	var (
		mu  sync.Mutex
		rec []vfc41Sub
	)
	next := queryrange.HandlerFunc(func(_ context.Context, q queryrange.Request) (queryrange.Response, error) {
		mu.Lock()
		rec = append(rec, vfc41Sub{q.GetStart(), q.GetEnd(), q.GetStep()})
		mu.Unlock()
		switch q.(type) {
		case *ThanosQueryRangeRequest:
			var smp []cortexpb.Sample
			for ts := q.GetStart(); ts <= q.GetEnd() && len(smp) < 20000; ts += q.GetStep() {
				smp = append(smp, cortexpb.Sample{TimestampMs: ts, Value: float64(ts % 1000)})
			}
			return &queryrange.PrometheusResponse{Status: "success", Data: queryrange.PrometheusData{ResultType: "matrix",
				Result: []queryrange.SampleStream{{Labels: []cortexpb.LabelAdapter{{Name: "__name__", Value: "foo"}}, Samples: smp}}}}, nil
		case *ThanosLabelsRequest:
			return &ThanosLabelsResponse{Status: "success", Data: []string{"a"}}, nil
		default:
			return &ThanosSeriesResponse{Status: "success"}, nil
		}
	})
	var merger queryrange.Merger = rangeCodec
	if cs.Kind != "range" {
		merger = labelsCodec
	}
	var h queryrange.Handler = SplitByIntervalMiddleware(func(queryrange.Request) time.Duration { return interval }, vfc41Limits{par: par}, merger, nil).Wrap(next)
	start, end := cs.Start, cs.End
	via := "SplitByIntervalMiddleware"
	if withAlign && cs.Kind == "range" {
		h = queryrange.StepAlignMiddleware.Wrap(h)
		start, end = cs.Start/cs.Step*cs.Step, cs.End/cs.Step*cs.Step
		via = "StepAlign+SplitByIntervalMiddleware"
	}
	resp, err := h.Do(ctx, req)
	r.Eval(1)
	r.Count("via_middleware", 1)
	if err != nil {
		r.Violation(c, cs.Kind+":middleware-error", fmt.Sprintf("%s failed on a valid request: %v", via, err), wit(nil, via))
		return
	}
	if cs.Kind != "range" {
		if fp, what := vfc41CheckCover(start, end, rec); fp != "" {
			r.Violation(c, cs.Kind+":"+fp, what+" ("+cs.Class+", via middleware)", wit(rec, via))
		}
		return
	}
	if fp, what := vfc41CheckRange(start, end, cs.Step, rec); fp != "" {
		r.Violation(c, "range:"+fp, what+" ("+cs.Class+", requests seen by next)", wit(rec, via))
		return
	}
	// the merged answer holds every original timestamp exactly once
	pr, ok := resp.(*queryrange.PrometheusResponse)
	if !ok || len(pr.Data.Result) != 1 {
		r.Violation(c, "range:merged-response-malformed", fmt.Sprintf("merged response %T has not exactly one series", resp), wit(rec, via))
		return
	}
	want := start
	for i, s := range pr.Data.Result[0].Samples {
		if s.TimestampMs != want {
			fp := "range:merged:timestamp-missing"
			if s.TimestampMs < want {
				fp = "range:merged:timestamp-duplicated"
			}
			r.Violation(c, fp, fmt.Sprintf("merged sample #%d has t=%d, expected %d", i, s.TimestampMs, want), wit(rec, via))
			return
		}
		want += cs.Step
	}
	if last := start + (end-start)/cs.Step*cs.Step; want-cs.Step != last {
		r.Violation(c, "range:merged:timestamp-missing", fmt.Sprintf("merged samples end at %d, expected %d", want-cs.Step, last), wit(rec, via))
	}
}
