//go:build verif

package queryfrontend

import (
	"bytes"
	"context"
	"encoding/json"
	"fmt"
	"io"
	"math"
	"math/rand"
	"net/http"
	"sort"
	"strconv"
	"strings"
	"sync"
	"testing"
	"time"

	"github.com/go-kit/log"
	"github.com/prometheus/common/model"
	"github.com/weaveworks/common/user"

	cortexcache "github.com/thanos-io/thanos/internal/cortex/chunk/cache"
	"github.com/thanos-io/thanos/internal/cortex/frontend/transport"
	"github.com/thanos-io/thanos/internal/cortex/querier/queryrange"
	cortexvalidation "github.com/thanos-io/thanos/internal/cortex/util/validation"
	"github.com/thanos-io/thanos/pkg/verifhook/vfkit"
)

// ---------------------------------------------------------------------------------------------
// C42 — the results cache never changes query results.
//
// The real tripperware (queryfrontend.NewTripperware: limits, step align, split by interval,
// results cache with the Thanos key generator and codec) is driven with histories of range queries;
// the downstream is a fake Prometheus computing a pure function of (tenant, query, timestamp).
// Every answer is compared with the direct answer of that function for the same request.
// ---------------------------------------------------------------------------------------------

const vfc42Base = int64(1614556800000) // 2021-03-01T00:00:00Z: far older than any max-freshness cut-off

func vfc42Mix(x uint64) uint64 {
	x ^= x >> 33
	x *= 0xff51afd7ed558ccd
	x ^= x >> 33
	x *= 0xc4ceb9fe1a85ec53
	x ^= x >> 33
	return x
}

func vfc42StrHash(s string) uint64 {
	h := uint64(14695981039346656037)
	for i := 0; i < len(s); i++ {
		h ^= uint64(s[i])
		h *= 1099511628211
	}
	return h
}

// vfc42World is the immutable data set: per (tenant, query) nSeries series; series i exists on
// [lo_i, hi_i] minus pseudo-random 7-minute holes; value(series, t) is a hash. Nothing depends on the step.
type vfc42World struct {
	seed    uint64
	nSeries int
	hist    bool // some series carry native histogram samples
}

// kind of series i (the same for every tenant/query of the world): 0 float, 1 native histograms only,
// 2 mixed (float samples and histogram samples alternate in 11-minute blocks).
func (w vfc42World) kind(i int) int {
	if !w.hist {
		return 0
	}
	switch vfc42Mix(w.seed^uint64(i+7)*0x9fb21c651e98df25) % 5 {
	case 0, 1:
		return 1
	case 2:
		return 2
	}
	return 0
}

// vfc42HistCanon is the canonical text of a native histogram sample (what the oracle compares).
func vfc42HistCanon(count, sum float64, buckets [][4]float64) string {
	var b strings.Builder
	fmt.Fprintf(&b, "count=%s sum=%s buckets=", strconv.FormatFloat(count, 'g', -1, 64), strconv.FormatFloat(sum, 'g', -1, 64))
	for _, k := range buckets {
		fmt.Fprintf(&b, "[%g %g %g %g]", k[0], k[1], k[2], k[3])
	}
	return b.String()
}

func vfc42HistOf(h uint64) (count, sum float64, buckets [][4]float64) {
	c1, c2 := float64(h%37), float64((h>>8)%53)
	return c1 + c2, float64((h>>16)%800000) / 8, [][4]float64{{0, 0.5, 1, c1}, {0, 1, 2, c2}}
}

// class is the downsampling level a request may read (0: 1h data, 1: 5m data, 2: raw only): the downstream
// holds different (downsampled) data per level, so the level is part of the identity of a series' samples.
func (w vfc42World) sid(tenant, query string, i, class int) uint64 {
	return vfc42Mix(uint64(2-class)*0x632be59bd9b4e019 ^ w.seed ^ vfc42StrHash(tenant)*0x9e3779b97f4a7c15 ^ vfc42StrHash(query)*0xd6e8feb86659fd93 ^ uint64(i+1)*0xa0761d6478bd642f)
}

func (w vfc42World) life(sid uint64, i int) (int64, int64) {
	switch i % 4 {
	case 0:
		return math.MinInt64, math.MaxInt64 // always there
	case 1: // appears late
		return vfc42Base + int64(sid%(36*3600))*1000, math.MaxInt64
	case 2: // short-lived
		lo := vfc42Base + int64(sid%(30*3600))*1000
		return lo, lo + int64(600+vfc42Mix(sid)%(5*3600))*1000
	default: // disappears
		return math.MinInt64, vfc42Base + int64(3600+sid%(40*3600))*1000
	}
}

func (w vfc42World) sample(sid uint64, i int, lo, hi, t int64) (vfc42Pt, bool) {
	if t < lo || t > hi {
		return vfc42Pt{}, false
	}
	if i%4 != 0 || i == 4 {
		if vfc42Mix(sid^uint64(t/420000)*0x2545f4914f6cdd1d)%6 == 0 { // a hole
			return vfc42Pt{}, false
		}
	}
	h := vfc42Mix(sid ^ uint64(t)*0x9e3779b97f4a7c15)
	k := w.kind(i)
	if k == 1 || (k == 2 && vfc42Mix(sid^uint64(t/660000)*0x4cf5ad432745937f)%2 == 0) {
		return vfc42Pt{T: t, H: vfc42HistCanon(vfc42HistOf(h))}, true
	}
	return vfc42Pt{T: t, V: float64(h%800000) / 8}, true
}

// vfc42Pt is one sample: a float (H == "") or a native histogram (H = canonical text).
type vfc42Pt struct {
	T int64
	V float64
	H string
}

// eval is the direct answer: samples at start + k*step <= end, series without samples omitted.
func (w vfc42World) eval(tenant, query string, class int, start, end, step int64) map[string][]vfc42Pt {
	out := map[string][]vfc42Pt{}
	for i := 0; i < w.nSeries; i++ {
		sid := w.sid(tenant, query, i, class)
		lo, hi := w.life(w.sid(tenant, query, i, 2), i) // a series lives equally long at every level
		var pts []vfc42Pt
		for t := start; t <= end; t += step {
			if p, ok := w.sample(sid, i, lo, hi, t); ok {
				pts = append(pts, p)
			}
		}
		if len(pts) > 0 {
			out[vfc42SeriesKey(tenant, query, i)] = pts
		}
	}
	return out
}

func vfc42SeriesKey(tenant, query string, i int) string {
	return fmt.Sprintf(`{__name__=%q, i="%d", tenant=%q}`, query, i, tenant)
}

// vfc42Down is the fake Prometheus (http.RoundTripper).
type vfc42Down struct {
	w     vfc42World
	mu    sync.Mutex
	calls int
	bad   []string
	// responses whose first series holds native histogram samples only
	histFirst int
}

func (d *vfc42Down) ncalls() int { d.mu.Lock(); defer d.mu.Unlock(); return d.calls }
func (d *vfc42Down) firstBad() string {
	d.mu.Lock()
	defer d.mu.Unlock()
	if len(d.bad) == 0 {
		return ""
	}
	return d.bad[0]
}

func (d *vfc42Down) RoundTrip(r *http.Request) (*http.Response, error) {
	fail := func(msg string) (*http.Response, error) {
		d.mu.Lock()
		d.bad = append(d.bad, msg)
		d.mu.Unlock()
		return &http.Response{StatusCode: 400, Body: io.NopCloser(strings.NewReader(msg)), Header: http.Header{}}, nil
	}
	if err := r.ParseForm(); err != nil {
		return fail("parse form: " + err.Error())
	}
	ms := func(name string) (int64, bool) {
		f, err := strconv.ParseFloat(r.Form.Get(name), 64)
		if err != nil {
			return 0, false
		}
		return int64(math.Round(f * 1000)), true
	}
	start, ok1 := ms("start")
	end, ok2 := ms("end")
	step, ok3 := ms("step")
	if !ok1 || !ok2 || !ok3 || step <= 0 || end < start {
		return fail(fmt.Sprintf("downstream got a malformed range request: start=%q end=%q step=%q", r.Form.Get("start"), r.Form.Get("end"), r.Form.Get("step")))
	}
	tenant := r.Header.Get(user.OrgIDHeaderName)
	query := r.Form.Get("query")
	d.mu.Lock()
	d.calls++
	d.mu.Unlock()
	// max_source_resolution as the querier reads it: "auto" = step/5, absent = raw
	msr := int64(0)
	switch v := r.Form.Get("max_source_resolution"); v {
	case "":
	case "auto":
		msr = step / 5
	default:
		f, err := strconv.ParseFloat(v, 64)
		if err != nil {
			return fail("downstream got max_source_resolution=" + v)
		}
		msr = int64(math.Round(f * 1000))
	}
	class := vfc42Class(msr)
	res := d.w.eval(tenant, query, class, start, end, step)
	var b bytes.Buffer
	b.WriteString(`{"status":"success","data":{"resultType":"matrix","result":[`)
	first := true
	for i := 0; i < d.w.nSeries; i++ {
		pts, ok := res[vfc42SeriesKey(tenant, query, i)]
		if !ok {
			continue
		}
		if !first {
			b.WriteByte(',')
		}
		if first && len(pts) > 0 {
			allHist := true
			for _, p := range pts {
				if p.H == "" {
					allHist = false
				}
			}
			if allHist {
				d.mu.Lock()
				d.histFirst++
				d.mu.Unlock()
			}
		}
		first = false
		fmt.Fprintf(&b, `{"metric":{"__name__":%q,"i":"%d","tenant":%q}`, query, i, tenant)
		for pass, name := range []string{"values", "histograms"} {
			n := 0
			for _, p := range pts {
				if (p.H != "") != (pass == 1) {
					continue
				}
				if n == 0 {
					fmt.Fprintf(&b, `,%q:[`, name)
				} else {
					b.WriteByte(',')
				}
				n++
				if pass == 0 {
					fmt.Fprintf(&b, `[%d.%03d,"%s"]`, p.T/1000, p.T%1000, strconv.FormatFloat(p.V, 'f', -1, 64))
					continue
				}
				sid := d.w.sid(tenant, query, i, class)
				cnt, sum, bk := vfc42HistOf(vfc42Mix(sid ^ uint64(p.T)*0x9e3779b97f4a7c15))
				fmt.Fprintf(&b, `[%d.%03d,{"count":"%s","sum":"%s","buckets":[`, p.T/1000, p.T%1000, strconv.FormatFloat(cnt, 'f', -1, 64), strconv.FormatFloat(sum, 'f', -1, 64))
				for j, k := range bk {
					if j > 0 {
						b.WriteByte(',')
					}
					fmt.Fprintf(&b, `[%d,"%s","%s","%s"]`, int(k[0]), strconv.FormatFloat(k[1], 'f', -1, 64), strconv.FormatFloat(k[2], 'f', -1, 64), strconv.FormatFloat(k[3], 'f', -1, 64))
				}
				b.WriteString("]}]")
			}
			if n > 0 {
				b.WriteByte(']')
			}
		}
		b.WriteString("}")
	}
	b.WriteString("]}}")
	return &http.Response{StatusCode: 200, Header: http.Header{"Content-Type": []string{"application/json"}},
		Body: io.NopCloser(bytes.NewReader(b.Bytes())), ContentLength: int64(b.Len())}, nil
}

// vfc42Cache is a cache backend that loses entries. Whether the n-th access to a key is lost is a
// pure function of (seed, key, n), so a history is reproducible whatever the goroutine schedule.
type vfc42Cache struct {
	mu      sync.Mutex
	m       map[string][]byte
	acc     map[string]int
	seed    uint64
	lossPct uint64
	hits    int
	stores  int
	lost    int
}

func (c *vfc42Cache) lose(key string) bool {
	n := c.acc[key]
	c.acc[key] = n + 1
	return c.lossPct > 0 && vfc42Mix(c.seed^vfc42StrHash(key)^uint64(n)*0x9e3779b97f4a7c15)%100 < c.lossPct
}

func (c *vfc42Cache) Store(_ context.Context, keys []string, bufs [][]byte) {
	c.mu.Lock()
	defer c.mu.Unlock()
	for i, k := range keys {
		if c.lose(k) {
			c.lost++
			delete(c.m, k)
			continue
		}
		c.stores++
		c.m[k] = append([]byte(nil), bufs[i]...)
	}
}

func (c *vfc42Cache) Fetch(_ context.Context, keys []string) (found []string, bufs [][]byte, missing []string) {
	c.mu.Lock()
	defer c.mu.Unlock()
	for _, k := range keys {
		b, ok := c.m[k]
		if ok && c.lose(k) {
			c.lost++
			delete(c.m, k)
			ok = false
		}
		if !ok {
			missing = append(missing, k)
			continue
		}
		c.hits++
		found = append(found, k)
		bufs = append(bufs, append([]byte(nil), b...))
	}
	return
}

func (c *vfc42Cache) Stop() {}

func vfc42Class(msr int64) int {
	switch {
	case msr >= 3600000:
		return 0
	case msr >= 300000:
		return 1
	}
	return 2
}

type vfc42Query struct {
	MSR    string `json:"max_source_resolution,omitempty"` // "" | "auto" | milliseconds
	Tenant string `json:"tenant"`
	Query  string `json:"query"`
	Start  int64  `json:"start_ms"`
	End    int64  `json:"end_ms"`
	Step   int64  `json:"step_ms"`
	Rel    string `json:"relation"`
}

type vfc42Hist struct {
	Align       bool         `json:"align_range_with_step"`
	SplitMs     int64        `json:"split_interval_ms"` // 0: dynamic
	DynMinMs    int64        `json:"dynamic_min_split_ms,omitempty"`
	DynMaxMs    int64        `json:"dynamic_max_split_ms,omitempty"`
	DynShards   int64        `json:"dynamic_horizontal_shards,omitempty"`
	Parallelism int          `json:"max_query_parallelism"`
	Cache       string       `json:"cache"` // lossy:<pct> | fifo:<items>
	Compression string       `json:"compression"`
	Series      int          `json:"series_per_query"`
	Histograms  bool         `json:"native_histogram_series"`
	WorldSeed   uint64       `json:"world_seed"`
	Queries     []vfc42Query `json:"queries"`
}

var vfc42Steps = []int64{15000, 60000, 300000, 3600000}

func vfc42Gen(rng *rand.Rand) vfc42Hist {
	var h vfc42Hist
	h.Align = rng.Intn(10) < 7
	switch rng.Intn(6) {
	case 0:
		h.SplitMs, h.DynMinMs, h.DynMaxMs, h.DynShards = 0, vfkit.Pick(rng, []int64{1800000, 3600000}), vfkit.Pick(rng, []int64{6 * 3600000, 24 * 3600000}), int64(2+rng.Intn(3))
	default:
		h.SplitMs = vfkit.Pick(rng, []int64{3600000, 3600000, 6 * 3600000, 24 * 3600000, 24 * 3600000})
	}
	h.Parallelism = 1 + rng.Intn(4)
	if rng.Intn(4) == 0 {
		h.Cache = fmt.Sprintf("fifo:%d", 1+rng.Intn(4))
		h.Parallelism = 1 // keeps the eviction order a function of the history
	} else {
		h.Cache = fmt.Sprintf("lossy:%d", vfkit.Pick(rng, []int{0, 0, 10, 30}))
	}
	h.Compression = vfkit.Pick(rng, []string{"", "", "snappy"})
	h.Series = 2 + rng.Intn(4)
	h.Histograms = rng.Intn(4) != 0
	h.WorldSeed = rng.Uint64()
	// steps of the history
	si := rng.Intn(len(vfc42Steps))
	primary := vfc42Steps[si]
	mode := rng.Intn(4) // 0,1: one step; 2: finer first then coarser; 3: any two
	other := primary
	switch mode {
	case 2:
		if si+1 < len(vfc42Steps) {
			other = vfc42Steps[si+1]
		}
	case 3:
		other = vfc42Steps[rng.Intn(len(vfc42Steps))]
	}
	nq := 1 + rng.Intn(8)
	zoom := rng.Intn(4) == 0 // a zooming session: tiny first range, then queries starting inside / covering the earlier ones
	resolutions := rng.Intn(3) == 0 // this history also varies max_source_resolution (mostly "auto" = step/5)
	tenants := []string{"t1"}
	if rng.Intn(2) == 0 {
		tenants = []string{"t1", "t2"}
	}
	queries := []string{"foo"}
	if rng.Intn(2) == 0 {
		queries = []string{"foo", "bar"}
	}
	maxPts := int64(40 + rng.Intn(260))
	for k := 0; k < nq; k++ {
		q := vfc42Query{Tenant: vfkit.Pick(rng, tenants), Query: vfkit.Pick(rng, queries)}
		if resolutions {
			q.MSR = vfkit.Pick(rng, []string{"auto", "auto", "auto", "", "600000", "7200000"})
		}
		q.Step = primary
		switch mode {
		case 2:
			if k >= nq/2 {
				q.Step = other
			}
		case 3:
			if rng.Intn(2) == 0 {
				q.Step = other
			}
		}
		dur := (1 + rng.Int63n(maxPts)) * q.Step
		if rng.Intn(12) == 0 {
			dur = 0
		}
		tiny := rng.Intn(6) == 0 || (zoom && k == 0)
		if tiny {
			dur = (1 + rng.Int63n(4)) * q.Step // 1..4 steps: below the minimum cache extent for steps <= 1m
		}
		var prev *vfc42Query
		if k > 0 && rng.Intn(5) != 0 {
			prev = &h.Queries[rng.Intn(k)]
		}
		if zoom && k > 0 {
			prev = &h.Queries[k-1] // a zooming session: every query relates to the one before
		}
		if prev == nil {
			q.Rel = "fresh"
			if tiny {
				q.Rel = "fresh-tiny"
			}
			q.Start = vfc42Base + rng.Int63n(30*3600)*1000
			q.Start = q.Start / q.Step * q.Step
			q.End = q.Start + dur
		} else {
			plen := prev.End - prev.Start
			rel := rng.Intn(13)
			if zoom {
				rel = []int{11, 12, 11, 12, 0, 8, 7}[rng.Intn(7)]
			}
			switch rel {
			case 11:
				// starts strictly inside the earlier range (by >= 2 steps where it is long enough) and runs beyond its end
				q.Rel = "starts-inside"
				inside := plen / q.Step
				off := int64(1)
				if inside >= 3 {
					off = 2 + rng.Int63n(inside-2)
				}
				q.Start = prev.Start + off*q.Step
				q.End = max(prev.End, q.Start) + (1+rng.Int63n(maxPts))*q.Step
			case 12:
				// covers everything asked so far for this tenant and query string
				q.Rel = "cover-all"
				q.Start, q.End = prev.Start, prev.End
				for _, o := range h.Queries[:k] {
					if o.Tenant == prev.Tenant && o.Query == prev.Query {
						q.Start, q.End = min(q.Start, o.Start), max(q.End, o.End)
					}
				}
			case 7:
				q.Rel = "left-extension"
				q.Start, q.End = prev.Start-(1+rng.Int63n(maxPts))*q.Step, prev.End
			case 8:
				q.Rel = "right-extension"
				q.Start, q.End = prev.Start, prev.End+(1+rng.Int63n(maxPts))*q.Step
			case 9:
				q.Rel = "adjacent-before"
				q.End = prev.Start - int64(rng.Intn(2))*q.Step
				q.Start = q.End - dur
			case 10:
				// span an earlier query and another earlier query of the same tenant/query string: what lies between is a hole
				q.Rel = "superset"
				q.Start, q.End = prev.Start-rng.Int63n(dur+1), prev.End+rng.Int63n(dur+1)
				for _, j := range rng.Perm(k) {
					o := h.Queries[j]
					if o.Tenant == prev.Tenant && o.Query == prev.Query && (o.Start > prev.End+o.Step || o.End+o.Step < prev.Start) {
						q.Rel = "hole-fill"
						q.Start, q.End = min(o.Start, prev.Start), max(o.End, prev.End)
						break
					}
				}
			case 0:
				q.Rel, q.Start, q.End = "identical", prev.Start, prev.End
			case 1:
				q.Rel = "shifted-forward"
				q.Start = prev.Start + rng.Int63n(plen+1)
				q.End = q.Start + plen
			case 2:
				q.Rel = "adjacent-after"
				q.Start = prev.End + int64(rng.Intn(2))*q.Step
				q.End = q.Start + dur
			case 3:
				q.Rel = "contained"
				q.Start = prev.Start + rng.Int63n(plen/2+1)
				q.End = q.Start + rng.Int63n(plen/2+1)
			case 4:
				q.Rel = "superset"
				q.Start = prev.Start - rng.Int63n(dur+1)
				q.End = prev.End + rng.Int63n(dur+1)
			case 5:
				q.Rel = "shifted-back"
				q.Start = prev.Start - rng.Int63n(plen+1)
				q.End = q.Start + plen
			default:
				q.Rel = "disjoint-after"
				q.Start = prev.End + (2+rng.Int63n(20))*q.Step
				q.End = q.Start + dur
			}
			if zoom || rng.Intn(3) != 0 || q.Rel == "hole-fill" || q.Rel == "left-extension" || q.Rel == "right-extension" || q.Rel == "starts-inside" || q.Rel == "cover-all" {
				q.Tenant, q.Query = prev.Tenant, prev.Query
			}
			// keep the history on the step grid: starts and ends are multiples of the step ...
			q.Start = q.Start / q.Step * q.Step
			q.End = q.End / q.Step * q.Step
		}
		if q.Start < vfc42Base-3*86400000 {
			q.Start = (vfc42Base - 3*86400000) / q.Step * q.Step
		}
		if q.End < q.Start {
			q.End = q.Start
		}
		if (q.End-q.Start)/q.Step > 600 {
			if q.Rel == "left-extension" {
				q.Start = q.End - 600*q.Step // keep the cached right part in the range
			} else {
				q.End = q.Start + 600*q.Step
			}
		}
		// ... unless the frontend aligns itself: then some requests are sent unaligned
		if h.Align && rng.Intn(3) == 0 {
			q.Start += rng.Int63n(q.Step)
			q.End += rng.Int63n(q.Step)
			if q.End < q.Start {
				q.End = q.Start
			}
			q.Rel += "+unaligned"
		}
		h.Queries = append(h.Queries, q)
	}
	return h
}

type vfc42Resp struct {
	Status string `json:"status"`
	Data   struct {
		ResultType string `json:"resultType"`
		Result     []struct {
			Metric map[string]string `json:"metric"`
			Values     [][2]any          `json:"values"`
			Histograms [][2]any          `json:"histograms"`
		} `json:"result"`
	} `json:"data"`
}

func vfc42Parse(body []byte) (map[string][]vfc42Pt, error) {
	var rr vfc42Resp
	if err := json.Unmarshal(body, &rr); err != nil {
		return nil, err
	}
	if rr.Status != "success" {
		return nil, fmt.Errorf("status %q", rr.Status)
	}
	out := map[string][]vfc42Pt{}
	for _, s := range rr.Data.Result {
		i, _ := strconv.Atoi(s.Metric["i"])
		key := vfc42SeriesKey(s.Metric["tenant"], s.Metric["__name__"], i)
		if len(s.Metric) != 3 {
			key = fmt.Sprint(s.Metric)
		}
		var fl, hs []vfc42Pt
		for _, v := range s.Values {
			tf, ok1 := v[0].(float64)
			vs, ok2 := v[1].(string)
			if !ok1 || !ok2 {
				return nil, fmt.Errorf("malformed sample %v", v)
			}
			f, err := strconv.ParseFloat(vs, 64)
			if err != nil {
				return nil, err
			}
			fl = append(fl, vfc42Pt{T: int64(math.Round(tf * 1000)), V: f})
		}
		for _, v := range s.Histograms {
			tf, ok1 := v[0].(float64)
			ho, ok2 := v[1].(map[string]any)
			if !ok1 || !ok2 {
				return nil, fmt.Errorf("malformed histogram sample %v", v)
			}
			num := func(x any) (float64, bool) {
				switch y := x.(type) {
				case string:
					f, err := strconv.ParseFloat(y, 64)
					return f, err == nil
				case float64:
					return y, true
				}
				return 0, false
			}
			cnt, okc := num(ho["count"])
			sum, oks := num(ho["sum"])
			if !okc || !oks {
				return nil, fmt.Errorf("malformed histogram %v", ho)
			}
			var bk [][4]float64
			bl, _ := ho["buckets"].([]any)
			for _, b := range bl {
				ba, ok := b.([]any)
				if !ok || len(ba) != 4 {
					return nil, fmt.Errorf("malformed histogram bucket %v", b)
				}
				var k [4]float64
				for j := range ba {
					f, ok := num(ba[j])
					if !ok {
						return nil, fmt.Errorf("malformed histogram bucket %v", b)
					}
					k[j] = f
				}
				bk = append(bk, k)
			}
			hs = append(hs, vfc42Pt{T: int64(math.Round(tf * 1000)), H: vfc42HistCanon(cnt, sum, bk)})
		}
		// merge the two lists by timestamp; an order violation inside a list survives the merge
		var pts []vfc42Pt
		for len(fl) > 0 || len(hs) > 0 {
			if len(hs) == 0 || (len(fl) > 0 && fl[0].T <= hs[0].T) {
				pts, fl = append(pts, fl[0]), fl[1:]
			} else {
				pts, hs = append(pts, hs[0]), hs[1:]
			}
		}
		if len(pts) == 0 {
			continue // a series without samples carries no information
		}
		if _, dup := out[key]; dup {
			return nil, fmt.Errorf("series %s returned twice", key)
		}
		out[key] = pts
	}
	return out, nil
}

// vfc42Diff compares got with want; returns symptom ("" = equal) and text. Symptoms in fixed priority.
func vfc42Diff(want, got map[string][]vfc42Pt, start, step int64) (string, string) {
	keys := func(m map[string][]vfc42Pt) []string {
		var k []string
		for s := range m {
			k = append(k, s)
		}
		sort.Strings(k)
		return k
	}
	for _, k := range keys(got) {
		pts := got[k]
		for i, p := range pts {
			if (p.T-start)%step != 0 || p.T < start {
				return "timestamp-off-grid", fmt.Sprintf("series %s has a sample at t=%d which is not start+k*step (start=%d step=%d)", k, p.T, start, step)
			}
			if i > 0 && p.T <= pts[i-1].T {
				return "timestamps-not-increasing", fmt.Sprintf("series %s: t=%d after t=%d", k, p.T, pts[i-1].T)
			}
		}
	}
	for _, k := range keys(got) {
		if _, ok := want[k]; !ok {
			return "series-added", fmt.Sprintf("series %s (%d samples) is not in the direct answer", k, len(got[k]))
		}
	}
	for _, k := range keys(want) {
		g, ok := got[k]
		if !ok {
			return "series-missing", fmt.Sprintf("series %s (%d samples in the direct answer) is missing", k, len(want[k]))
		}
		w := want[k]
		wi := map[int64]vfc42Pt{}
		for _, p := range w {
			wi[p.T] = p
		}
		gi := map[int64]vfc42Pt{}
		for _, p := range g {
			gi[p.T] = p
			if _, ok := wi[p.T]; !ok {
				return "sample-added", fmt.Sprintf("series %s has a sample at t=%d that the direct answer does not have", k, p.T)
			}
		}
		for _, p := range w {
			v, ok := gi[p.T]
			if !ok {
				return "sample-missing", fmt.Sprintf("series %s lacks the sample at t=%d", k, p.T)
			}
			if (v.H == "") != (p.H == "") {
				return "sample-type-differs", fmt.Sprintf("series %s at t=%d: float/native-histogram kind differs from the direct answer", k, p.T)
			}
			if v.V != p.V || v.H != p.H {
				return "value-differs", fmt.Sprintf("series %s at t=%d: %v %s, direct answer %v %s", k, p.T, v.V, v.H, p.V, p.H)
			}
		}
	}
	return "", ""
}

func vfc42Tripper(h vfc42Hist, cache cortexcache.Cache) (queryrange.Tripperware, error) {
	cc := cortexcache.Config{Cache: cache}
	if cache == nil {
		items, _ := strconv.Atoi(strings.TrimPrefix(h.Cache, "fifo:"))
		cc = cortexcache.Config{EnableFifoCache: true, Fifocache: cortexcache.FifoCacheConfig{MaxSizeBytes: "64MiB", MaxSizeItems: items, Validity: time.Hour}}
	}
	cfg := Config{
		CortexHandlerConfig: &transport.HandlerConfig{},
		QueryRangeConfig: QueryRangeConfig{
			Limits:                 &cortexvalidation.Limits{MaxQueryParallelism: h.Parallelism, MaxCacheFreshness: model.Duration(time.Minute)},
			ResultsCacheConfig:     &queryrange.ResultsCacheConfig{CacheConfig: cc, Compression: h.Compression},
			AlignRangeWithStep:     h.Align,
			SplitQueriesByInterval: time.Duration(h.SplitMs) * time.Millisecond,
			MinQuerySplitInterval:  time.Duration(h.DynMinMs) * time.Millisecond,
			MaxQuerySplitInterval:  time.Duration(h.DynMaxMs) * time.Millisecond,
			HorizontalShards:       h.DynShards,
		},
	}
	return NewTripperware(cfg, nil, log.NewNopLogger())
}

func TestVF_C42(t *testing.T) {
	r := vfkit.Start(t, "C42")
	defer r.Finish()
	r.Rule("case = history of 1..8 range queries (1-2 tenants, 1-2 query strings, steps from {15s,1m,5m,1h}: one step / finer-then-coarser / two mixed; each query fresh or identical/shifted/adjacent/contained/superset/disjoint w.r.t. an earlier one; start==end sometimes; <=600 points) " +
		"against a fresh real NewTripperware (results cache + split interval {1h,6h,24h} or dynamic split, align-range-with-step on 70%/off 30%, parallelism 1..4, cache backend = lossy in-memory cache (0/10/30% of accesses lose the entry) or the real FIFO cache with 1..4 items, optional snappy); " +
		"each query fresh or identical/shifted/adjacent-before/after/contained/superset/disjoint/left-extension/right-extension/hole-fill/starts-inside (>= 2 steps inside an earlier range, running beyond it)/cover-all w.r.t. earlier ones; 1 in 6 ranges is tiny (1..4 steps, below the 5-minute minimum cache extent for steps <= 1m); 1 in 4 histories is a zooming session (tiny first range, every query relates to the previous one); duplicate timestamps in a series are a difference (nothing is de-duplicated before comparing); " +
		"in 1 of 3 histories queries also carry max_source_resolution (mostly auto = step/5, else none/10m/2h) and the downstream serves different data per downsampling level (1h / 5m / raw) as a querier does; downstream = pure function of (tenant, query, level, timestamp) with series that appear/disappear and 7-minute holes, all data in March 2021; in 3 of 4 histories each series is float, native-histogram-only or mixed (11-minute blocks) by a hash of (world, i), so histogram-only series sort first, in the middle or last; histogram samples (count, sum, buckets) are compared like float values; " +
		"requests are on the step grid unless align-range-with-step is on (then 1/3 are unaligned and the oracle is the direct answer for the step-aligned range, the documented behaviour of that option); " +
		"oracle: response through the frontend == direct answer (series set, timestamps, values, exact); distinct = history; non-trivial = at least one cache hit happened in the history")
	n := r.N(350, 7000)
	r.Require(int64(n)*2, n/3)
	r.Assume("data does not change and the downstream is deterministic (premise of the property)")
	r.Assume("with align-range-with-step off only requests whose start and end are multiples of their step are sent (the results cache documents that it assumes step-aligned requests)")
	codec := NewThanosQueryRangeCodec(true)
	for c := 0; c < n; c++ {
		if !r.Want(c) {
			continue
		}
		rng := r.Rand(c)
		h := vfc42Gen(rng)
		r.Guard(c, "tripperware", h, func() { vfc42Run(r, c, h, codec) })
	}
}

func vfc42Run(r *vfkit.Run, c int, h vfc42Hist, codec *queryRangeCodec) {
	var lossy *vfc42Cache
	var cache cortexcache.Cache
	if strings.HasPrefix(h.Cache, "lossy:") {
		pct, _ := strconv.Atoi(strings.TrimPrefix(h.Cache, "lossy:"))
		lossy = &vfc42Cache{m: map[string][]byte{}, acc: map[string]int{}, seed: h.WorldSeed, lossPct: uint64(pct)}
		cache = lossy
	}
	tpw, err := vfc42Tripper(h, cache)
	if err != nil {
		r.T.Fatalf("NewTripperware: %v", err)
	}
	down := &vfc42Down{w: vfc42World{seed: h.WorldSeed, nSeries: h.Series, hist: h.Histograms}}
	rt := tpw(down)
	hits := false
	for k, q := range h.Queries {
		ctx, cancel := context.WithTimeout(user.InjectOrgID(context.Background(), q.Tenant), 5*time.Minute)
		req := &ThanosQueryRangeRequest{Path: "/api/v1/query_range", Start: q.Start, End: q.End, Step: q.Step, Query: q.Query, Dedup: true, PartialResponse: true}
		qmsr := int64(0)
		switch q.MSR {
		case "":
		case "auto":
			req.AutoDownsampling, qmsr = true, q.Step/5
		default:
			qmsr, _ = strconv.ParseInt(q.MSR, 10, 64)
			req.MaxSourceResolution = qmsr
		}
		hr, err := codec.EncodeRequest(ctx, req)
		if err != nil {
			cancel()
			r.T.Fatalf("encode: %v", err)
		}
		callsBefore := down.ncalls()
		resp, err := rt.RoundTrip(hr)
		cancel()
		r.Eval(1)
		start, end := q.Start, q.End
		if h.Align {
			start, end = q.Start/q.Step*q.Step, q.End/q.Step*q.Step
		}
		want := down.w.eval(q.Tenant, q.Query, vfc42Class(qmsr), start, end, q.Step)
		if q.MSR != "" {
			r.Count("queries_with_max_source_resolution", 1)
		}
		// class of the failing query: what earlier queries of this tenant/query string exist
		class := "first-query"
		for _, p := range h.Queries[:k] {
			if p.Tenant != q.Tenant || p.Query != q.Query {
				continue
			}
			switch {
			case p.Step == q.Step && class != "after-finer-step-query":
				class = "after-same-step-query"
			case p.Step < q.Step && q.Step%p.Step == 0:
				class = "after-finer-step-query"
			case class == "first-query":
				class = "after-other-step-query"
			}
		}
		// answers whose first series (label order) holds native histogram samples only are a class of their own:
		// the response merger orders partial responses by the first sample of their first series
		for i := 0; i < h.Series; i++ {
			pts, ok := want[vfc42SeriesKey(q.Tenant, q.Query, i)]
			if !ok {
				continue
			}
			allHist := true
			for _, p := range pts {
				if p.H == "" {
					allHist = false
					break
				}
			}
			if allHist {
				class += ":first-series-native-histograms-only"
				r.Count("answers_whose_first_series_is_histogram_only", 1)
			}
			break
		}
		wit := func(extra map[string]any) map[string]any {
			m := map[string]any{"history": h, "failing_query_index": k, "failing_query": q, "evaluated_range": []int64{start, end}, "downstream_calls_for_this_query": down.ncalls() - callsBefore}
			for kk, v := range extra {
				m[kk] = v
			}
			return m
		}
		if bad := down.firstBad(); bad != "" {
			r.Violation(c, "malformed-downstream-request", bad, wit(nil))
			return
		}
		if err != nil {
			r.Violation(c, "error:"+class, fmt.Sprintf("query #%d failed through the frontend: %v", k, err), wit(nil))
			return
		}
		body, _ := io.ReadAll(resp.Body)
		resp.Body.Close()
		if resp.StatusCode != 200 {
			r.Violation(c, "error:"+class, fmt.Sprintf("query #%d: HTTP %d %s", k, resp.StatusCode, string(body[:min(len(body), 200)])), wit(nil))
			return
		}
		got, err := vfc42Parse(body)
		if err != nil {
			r.Violation(c, "malformed-response:"+class, fmt.Sprintf("query #%d: %v", k, err), wit(map[string]any{"body_head": string(body[:min(len(body), 400)])}))
			return
		}
		if sym, what := vfc42Diff(want, got, start, q.Step); sym != "" {
			r.Violation(c, sym+":"+class, fmt.Sprintf("query #%d (%s, step %ds, %s): %s", k, q.Rel, q.Step/1000, class, what), wit(nil))
			return
		}
		if down.ncalls() == callsBefore {
			hits = true
			r.Count("queries_answered_from_cache_only", 1)
		}
		r.Count("class:"+class, 1)
	}
	if lossy != nil {
		lossy.mu.Lock()
		if lossy.hits > 0 {
			hits = true
		}
		r.Count("cache_hits", lossy.hits)
		r.Count("cache_entries_lost", lossy.lost)
		lossy.mu.Unlock()
	}
	if hits {
		b, _ := json.Marshal(h)
		r.Distinct(string(b))
	}
	for _, q := range h.Queries {
		r.Count("relation:"+strings.TrimSuffix(q.Rel, "+unaligned"), 1)
	}
	if h.Histograms {
		r.Count("histories_with_native_histogram_series", 1)
	}
	down.mu.Lock()
	r.Count("downstream_responses_whose_first_series_is_histogram_only", down.histFirst)
	down.mu.Unlock()
	r.Count("downstream_calls", down.ncalls())
	r.Count("queries", len(h.Queries))
	r.Sample(map[string]any{"history": h, "downstream_calls": down.ncalls()})
}
