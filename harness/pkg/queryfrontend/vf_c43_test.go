//go:build verif

package queryfrontend

import (
	"context"
	"fmt"
	"sort"
	"strconv"
	"strings"
	"testing"
	"time"

	"github.com/prometheus/prometheus/model/labels"
	"github.com/weaveworks/common/user"

	"github.com/thanos-io/thanos/internal/cortex/querier/queryrange"
	"github.com/thanos-io/thanos/internal/cortex/tenant"
	"github.com/thanos-io/thanos/pkg/store/storepb"
	"github.com/thanos-io/thanos/pkg/verifhook/vfkit"
)

// ---------------------------------------------------------------------------------------------
// C43 — results-cache keys separate tenants and result-changing parameters.
//
// Injectivity search: every generated cacheable request (range / labels / series) is mapped by the
// REAL key generator; two requests whose canonical parameter tuples differ must not share a key.
// Tuples are pure functions of a 32-bit id (bounded-exhaustive blocks followed by a pseudo-random
// tail), so only hash(key) -> id is stored and a suspected pair is regenerated and re-keyed.
// Ambiguity search: a generated key is cut at its separators in every other way, re-parsed into a
// different tuple, and that tuple is fed back to the real generator.
// ---------------------------------------------------------------------------------------------

type vfc43M struct {
	T    labels.MatchType
	N, V string
}

type vfc43T struct {
	Kind     string // range | labels | series
	Tenant   string
	Query    string
	Step     int64
	MSR      int64
	Auto     bool      // max_source_resolution=auto: the codec sets MaxSourceResolution = step/5
	Shard    *[2]int64 // total, index
	Lookback int64
	Engine   string
	Partial  bool
	Replica  []string
	Analyze  bool
	SplitMs  int64
	Start    int64
	Label    string
	Matchers [][]vfc43M
}

// effMSR is the max source resolution the decoded request carries.
func (t vfc43T) effMSR() int64 {
	if t.Auto {
		return t.Step / 5
	}
	return t.MSR
}

func vfc43ResClass(msr int64) int {
	switch {
	case msr >= 3600000:
		return 0 // 1h downsampled data may be used
	case msr >= 300000:
		return 1 // 5m
	default:
		return 2 // raw only
	}
}

// vfc43ReplicaSet: replica labels compared as sets; the empty label name cannot name a label and is dropped.
func vfc43ReplicaSet(l []string) []string {
	m := map[string]bool{}
	for _, s := range l {
		if s != "" {
			m[s] = true
		}
	}
	out := make([]string, 0, len(m))
	for s := range m {
		out = append(out, s)
	}
	sort.Strings(out)
	return out
}

func vfc43MatchersCanon(ms [][]vfc43M) string {
	var b strings.Builder
	for _, set := range ms {
		b.WriteString("{")
		for _, m := range set {
			fmt.Fprintf(&b, "%d|%q|%q;", m.T, m.N, m.V)
		}
		b.WriteString("}")
	}
	return b.String()
}

// fields returns the canonical (name, value) list of result-changing parameters of the tuple.
func (t vfc43T) fields() [][2]string {
	bucket := fmt.Sprintf("%d/%d", t.SplitMs, t.Start/t.SplitMs)
	switch t.Kind {
	case "range":
		sh := "-"
		if t.Shard != nil {
			sh = fmt.Sprintf("%d/%d", t.Shard[0], t.Shard[1])
		}
		return [][2]string{
			{"tenant", t.Tenant}, {"query", t.Query}, {"step", strconv.FormatInt(t.Step, 10)}, {"split_bucket", bucket},
			{"resolution", strconv.Itoa(vfc43ResClass(t.effMSR()))}, {"shard", sh}, {"lookback", strconv.FormatInt(t.Lookback, 10)},
			{"engine", t.Engine}, {"partial_response", strconv.FormatBool(t.Partial)}, {"replica_labels", fmt.Sprintf("%q", vfc43ReplicaSet(t.Replica))},
			{"analyze", strconv.FormatBool(t.Analyze)},
		}
	case "labels":
		return [][2]string{{"tenant", t.Tenant}, {"label", t.Label}, {"matchers", vfc43MatchersCanon(t.Matchers)}, {"split_bucket", bucket},
			{"partial_response", strconv.FormatBool(t.Partial)}}
	default:
		return [][2]string{{"tenant", t.Tenant}, {"matchers", vfc43MatchersCanon(t.Matchers)}, {"split_bucket", bucket},
			{"partial_response", strconv.FormatBool(t.Partial)}, {"replica_labels", fmt.Sprintf("%q", vfc43ReplicaSet(t.Replica))}}
	}
}

func (t vfc43T) canon() string {
	var b strings.Builder
	b.WriteString(t.Kind)
	for _, f := range t.fields() {
		fmt.Fprintf(&b, "|%s=%q", f[0], f[1])
	}
	return b.String()
}

func vfc43PromMatchers(ms [][]vfc43M) [][]*labels.Matcher {
	if ms == nil {
		return nil
	}
	out := make([][]*labels.Matcher, len(ms))
	for i, set := range ms {
		for _, m := range set {
			out[i] = append(out[i], &labels.Matcher{Type: m.T, Name: m.N, Value: m.V})
		}
	}
	return out
}

func (t vfc43T) request() queryrange.Request {
	si := time.Duration(t.SplitMs) * time.Millisecond
	switch t.Kind {
	case "range":
		q := &ThanosQueryRangeRequest{Path: "/api/v1/query_range", Start: t.Start, End: t.Start, Step: t.Step, Query: t.Query, Dedup: true,
			PartialResponse: t.Partial, MaxSourceResolution: t.effMSR(), AutoDownsampling: t.Auto, ReplicaLabels: t.Replica, LookbackDelta: t.Lookback, Analyze: t.Analyze,
			Engine: t.Engine, SplitInterval: si}
		if t.Shard != nil {
			q.ShardInfo = &storepb.ShardInfo{TotalShards: t.Shard[0], ShardIndex: t.Shard[1], By: true, Labels: []string{"a"}}
		}
		return q
	case "labels":
		p := "/api/v1/labels"
		if t.Label != "" {
			p = "/api/v1/label/" + t.Label + "/values"
		}
		return &ThanosLabelsRequest{Path: p, Start: t.Start, End: t.Start, Label: t.Label, Matchers: vfc43PromMatchers(t.Matchers),
			PartialResponse: t.Partial, SplitInterval: si}
	default:
		return &ThanosSeriesRequest{Path: "/api/v1/series", Start: t.Start, End: t.Start, Dedup: true, PartialResponse: t.Partial,
			ReplicaLabels: t.Replica, Matchers: vfc43PromMatchers(t.Matchers), SplitInterval: si}
	}
}

func (t vfc43T) witness() map[string]any {
	m := map[string]any{"kind": t.Kind, "tenant": t.Tenant, "split_interval_ms": t.SplitMs, "start_ms": t.Start, "partial_response": t.Partial}
	switch t.Kind {
	case "range":
		m["query"], m["step_ms"], m["max_source_resolution_ms"], m["lookback_ms"], m["engine"] = t.Query, t.Step, t.effMSR(), t.Lookback, t.Engine
		m["max_source_resolution_auto"] = t.Auto
		m["replica_labels"], m["analyze"] = t.Replica, t.Analyze
		if t.Shard != nil {
			m["shard_total_index"] = *t.Shard
		}
	case "labels":
		m["label"], m["matchers"] = t.Label, fmt.Sprint(vfc43PromMatchers(t.Matchers))
	default:
		m["matchers"], m["replica_labels"] = fmt.Sprint(vfc43PromMatchers(t.Matchers)), t.Replica
	}
	return m
}

// vfc43Key maps a tuple through the real code exactly as resultsCache.Do does: the tenant is resolved
// from the request context by the real resolver, joined, and handed to the real key generator.
// ok=false: the frontend does not accept the tenant / does not cache the request.
func vfc43Key(gen thanosCacheKeyGenerator, t vfc43T) (key string, ok bool) {
	ids, err := tenant.TenantIDs(user.InjectOrgID(context.Background(), t.Tenant))
	if err != nil {
		return "", false
	}
	req := t.request()
	if !shouldCache(req) {
		return "", false
	}
	return gen.GenerateCacheKey(tenant.JoinTenantIDs(ids), req), true
}

// --- deterministic tuple space --------------------------------------------------------------------

type vfc43Rng uint64

func (s *vfc43Rng) next() uint64 {
	*s += 0x9e3779b97f4a7c15
	z := uint64(*s)
	z = (z ^ (z >> 30)) * 0xbf58476d1ce4e5b9
	z = (z ^ (z >> 27)) * 0x94d049bb133111eb
	return z ^ (z >> 31)
}
func (s *vfc43Rng) intn(n int) int { return int(s.next() % uint64(n)) }

// vfc43Strings: all strings of <= maxLen pieces over the alphabet, in a fixed order.
func vfc43Strings(alpha []string, maxLen int) []string {
	out := []string{""}
	prev := []string{""}
	for l := 1; l <= maxLen; l++ {
		var cur []string
		for _, p := range prev {
			for _, a := range alpha {
				cur = append(cur, p+a)
			}
		}
		out = append(out, cur...)
		prev = cur
	}
	return out
}

type vfc43Block struct {
	name string
	dims []int
	mk   func(ix []int) vfc43T
}

func (b vfc43Block) size() int {
	n := 1
	for _, d := range b.dims {
		n *= d
	}
	return n
}

type vfc43Space struct {
	blocks []vfc43Block
	exh    int // ids [0,exh) are the exhaustive blocks
	rnd    int // ids [exh, exh+rnd) are pseudo-random tuples
	seed   uint64
}

var (
	vfc43ShardOpts   = []*[2]int64{nil, {1, 1}, {11, 1}, {2, 0}}
	vfc43EngineOpts  = []string{"", "1", ":", "a:1", "prometheus", "thanos"}
	vfc43ReplicaOpts = [][]string{nil, {"a"}, {"a", "1"}, {"a,1"}, {"1", "a"}, {":"}, {"a:true"}, {"true"}, {"a", "a"}, {","}, {"a", ""}, {"replica", "prometheus_replica"}}
	vfc43MatcherOpts = [][][]vfc43M{
		nil,
		{},
		{{{labels.MatchEqual, "a", "1"}}},
		{{{labels.MatchEqual, "a", "1:1"}}},
		{{{labels.MatchEqual, "a", "1"}}, {{labels.MatchEqual, "a", "1"}}},
		{{{labels.MatchEqual, "a", "1"}, {labels.MatchNotEqual, "b", ""}}},
		{{{labels.MatchEqual, "a", "1] [b=\"2"}}},
		{{{labels.MatchEqual, "a", "1"}}, {{labels.MatchEqual, "b", "2"}}},
		{{{labels.MatchRegexp, "a", "1"}}},
		{{{labels.MatchEqual, "a", "~1"}}},
		{{{labels.MatchEqual, "__name__", "a:b"}}},
		{{{labels.MatchEqual, "a:b", "[]"}}},
	}
)

// matcher values that can imitate the rendering of further matchers / matcher sets
var vfc43QuoteValues = vfc43Strings([]string{"x", "\"", "\" b=\"", "\"] [b=\"", "\\", " ", "]"}, 2)

// the common dashboard steps (the frontend looks for alternative keys among them)
var vfc43CommonSteps = []int64{1000, 5000, 10000, 15000, 20000, 30000, 60000, 120000, 300000, 600000, 900000, 1800000, 3600000, 7200000, 10800000, 21600000, 43200000}

func vfc43NewSpace(seed int64, thorough bool) *vfc43Space {
	maxLen := 3
	if thorough {
		maxLen = 4
	}
	strs := vfc43Strings([]string{"a", ":", "1"}, maxLen)
	strs = append(strs, "-", "a:-", "1:1:1:1", "[]", ":[]", "a,1", "true", "a/b", ".", "..", "a\\b", "é:", "a|b")
	ns := len(strs)
	strs2 := append(vfc43Strings([]string{"a", ":", "1"}, maxLen-1), "-", "a:-", "[]", ":[]", "a,1", "true", "é:", "a|b", "1:1:1")
	ns2 := len(strs2)
	steps := []int64{1, 11, 60000}
	sp := &vfc43Space{seed: uint64(seed)}
	sp.blocks = []vfc43Block{
		{name: "range:tenant x query x shard x step x engine", dims: []int{ns, ns, 3, 2, 4}, mk: func(ix []int) vfc43T {
			return vfc43T{Kind: "range", Tenant: strs[ix[0]], Query: strs[ix[1]], Shard: vfc43ShardOpts[ix[2]], Step: steps[ix[3]], Engine: vfc43EngineOpts[ix[4]], SplitMs: 1, Start: 1}
		}},
		{name: "range:query x step x split x bucket x resolution x shard x lookback x engine", dims: []int{ns2, 3, 2, 3, 4, 4, 3, 4}, mk: func(ix []int) vfc43T {
			si := []int64{1, 11}[ix[2]]
			return vfc43T{Kind: "range", Tenant: "a", Query: strs2[ix[0]], Step: steps[ix[1]], SplitMs: si, Start: []int64{0, 1, 11}[ix[3]] * si,
				MSR: []int64{0, 299999, 300000, 3600000}[ix[4]], Shard: vfc43ShardOpts[ix[5]], Lookback: []int64{0, 1, 11}[ix[6]], Engine: vfc43EngineOpts[ix[7]]}
		}},
		{name: "range:engine x partial x replica x analyze x lookback x shard", dims: []int{40, 2, len(vfc43ReplicaOpts), 2, 2, 3}, mk: func(ix []int) vfc43T {
			return vfc43T{Kind: "range", Tenant: "a", Query: "a", Step: 1, SplitMs: 1, Start: 1, Engine: strs[ix[0]], Partial: ix[1] == 1, Replica: vfc43ReplicaOpts[ix[2]],
				Analyze: ix[3] == 1, Lookback: int64(ix[4]), Shard: vfc43ShardOpts[ix[5]]}
		}},
		{name: "labels:tenant x label x matchers x split x bucket x partial", dims: []int{ns, ns2, 6, 2, 2, 2}, mk: func(ix []int) vfc43T {
			si := []int64{1, 11}[ix[3]]
			return vfc43T{Kind: "labels", Tenant: strs[ix[0]], Label: strs2[ix[1]], Matchers: vfc43MatcherOpts[ix[2]], SplitMs: si, Start: int64(ix[4]) * si, Partial: ix[5] == 1}
		}},
		{name: "series:tenant x matchers x split x bucket x replica x partial", dims: []int{ns, len(vfc43MatcherOpts), 2, 3, 4, 2}, mk: func(ix []int) vfc43T {
			si := []int64{1, 11}[ix[2]]
			return vfc43T{Kind: "series", Tenant: strs[ix[0]], Matchers: vfc43MatcherOpts[ix[1]], SplitMs: si, Start: []int64{0, 1, 11}[ix[3]] * si,
				Replica: vfc43ReplicaOpts[ix[4]], Partial: ix[5] == 1}
		}},
	}
	nq := len(vfc43QuoteValues)
	sp.blocks = append(sp.blocks,
		vfc43Block{name: "labels+series:matcher lists [[a=V]], [[a=V b=W]], [[a=V] [b=W]] over values with quotes/brackets/backslash/space", dims: []int{2, 3, nq, nq}, mk: func(ix []int) vfc43T {
			t := vfc43T{Kind: []string{"labels", "series"}[ix[0]], Tenant: "a", SplitMs: 1, Start: 0}
			a, b := vfc43M{labels.MatchEqual, "a", vfc43QuoteValues[ix[2]]}, vfc43M{labels.MatchEqual, "b", vfc43QuoteValues[ix[3]]}
			switch ix[1] {
			case 0:
				t.Matchers = [][]vfc43M{{a}} // W unused: the same tuple is generated nq times, which is harmless
			case 1:
				t.Matchers = [][]vfc43M{{a, b}}
			default:
				t.Matchers = [][]vfc43M{{a}, {b}}
			}
			return t
		}},
		vfc43Block{name: "range:resolution {auto, 0, 3m, 12m, 72m} x common step x split x bucket x tenant x query (alternative keys always checked)", dims: []int{5, len(vfc43CommonSteps), 2, 2, 2, 2}, mk: func(ix []int) vfc43T {
			si := []int64{3600000, 86400000}[ix[2]]
			t := vfc43T{Kind: "range", Tenant: []string{"a", "a:1"}[ix[4]], Query: []string{"a", "a:1"}[ix[5]], Step: vfc43CommonSteps[ix[1]], SplitMs: si, Start: int64(ix[3]) * si}
			if ix[0] == 0 {
				t.Auto = true
			} else {
				t.MSR = []int64{0, 180000, 720000, 4320000}[ix[0]-1]
			}
			return t
		}})
	for _, b := range sp.blocks {
		sp.exh += b.size()
	}
	return sp
}

func (sp *vfc43Space) tuple(id uint32) vfc43T {
	i := int(id)
	if i < sp.exh {
		for _, b := range sp.blocks {
			if i < b.size() {
				ix := make([]int, len(b.dims))
				for d := len(b.dims) - 1; d >= 0; d-- {
					ix[d] = i % b.dims[d]
					i /= b.dims[d]
				}
				return b.mk(ix)
			}
			i -= b.size()
		}
	}
	return sp.random(uint64(id))
}

func vfc43Str(g *vfc43Rng, maxParts int, utf8 bool) string {
	// biased to separators so that neighbouring free-text fields can trade characters
	alpha := vfkit.Alphabet
	n := g.intn(maxParts + 1)
	s := ""
	for i := 0; i < n; i++ {
		var p string
		if g.intn(3) == 0 {
			p = []string{":", ":", ",", "a", "1", "-", "true", "false"}[g.intn(8)]
		} else {
			p = alpha[g.intn(len(alpha))]
		}
		if utf8 && p == "\xff" {
			p = "z"
		}
		s += p
	}
	return s
}

// vfc43MStr: matcher names/values; besides the adversarial alphabet the characters of the matcher rendering itself.
func vfc43MStr(g *vfc43Rng, maxParts int) string {
	n := g.intn(maxParts + 1)
	s := ""
	for i := 0; i < n; i++ {
		if g.intn(2) == 0 {
			s += []string{"\"", "\\", "[", "]", " ", "\n", "=", "a", "b", "\" b=\"", "\"] [", "1"}[g.intn(12)]
		} else {
			s += vfc43Str(g, 1, true)
		}
	}
	return s
}

func vfc43Int(g *vfc43Rng) int64 {
	switch g.intn(4) {
	case 0:
		return int64(g.intn(3))
	case 1:
		return []int64{1, 11, 1000, 15000, 30000, 60000, 300000, 3600000}[g.intn(8)]
	default:
		return int64(g.intn(130))
	}
}

func (sp *vfc43Space) random(id uint64) vfc43T {
	g := vfc43Rng(sp.seed*0x9e3779b97f4a7c15 ^ id*0xd6e8feb86659fd93)
	g.next()
	var t vfc43T
	t.Kind = []string{"range", "range", "labels", "series"}[g.intn(4)]
	t.Tenant = vfc43Str(&g, 3, false)
	t.SplitMs = 1 + vfc43Int(&g)
	t.Start = vfc43Int(&g) * t.SplitMs
	if g.intn(3) == 0 {
		t.Start += int64(g.intn(int(t.SplitMs)))
	}
	t.Partial = g.intn(2) == 0
	genMatchers := func() [][]vfc43M {
		if g.intn(3) == 0 {
			return vfc43MatcherOpts[g.intn(len(vfc43MatcherOpts))]
		}
		var out [][]vfc43M
		for i, n := 0, g.intn(3); i < n; i++ {
			var set []vfc43M
			for j, k := 0, 1+g.intn(2); j < k; j++ {
				set = append(set, vfc43M{T: labels.MatchType(g.intn(2)), N: vfc43MStr(&g, 2), V: vfc43MStr(&g, 3)})
			}
			out = append(out, set)
		}
		return out
	}
	genReplica := func() []string {
		if g.intn(2) == 0 {
			return vfc43ReplicaOpts[g.intn(len(vfc43ReplicaOpts))]
		}
		var out []string
		for i, n := 0, g.intn(3); i < n; i++ {
			out = append(out, vfc43Str(&g, 2, true))
		}
		return out
	}
	switch t.Kind {
	case "range":
		t.Query = vfc43Str(&g, 4, false)
		if t.Step = vfc43Int(&g); t.Step < 1 {
			t.Step = 1
		}
		t.MSR = []int64{0, 1, 299999, 300000, 300001, 3599999, 3600000, 7200000}[g.intn(8)]
		if g.intn(4) == 0 {
			t.Auto = true
			t.Step = vfc43CommonSteps[g.intn(len(vfc43CommonSteps))]
			t.Start = t.Start / t.SplitMs * t.SplitMs / t.Step * t.Step
		}
		if g.intn(2) == 0 {
			t.Shard = &[2]int64{1 + vfc43Int(&g), vfc43Int(&g)}
		}
		t.Lookback = vfc43Int(&g)
		t.Engine = vfc43Str(&g, 2, false)
		t.Replica = genReplica()
		t.Analyze = g.intn(2) == 0
	case "labels":
		t.Label = vfc43Str(&g, 3, true)
		t.Matchers = genMatchers()
	default:
		t.Matchers = genMatchers()
		t.Replica = genReplica()
	}
	return t
}

// --- classification -----------------------------------------------------------------------------

func vfc43FreeText(t vfc43T) []string {
	out := []string{t.Tenant}
	switch t.Kind {
	case "range":
		out = append(out, t.Query, t.Engine)
		out = append(out, t.Replica...)
	case "labels":
		out = append(out, t.Label)
	default:
		out = append(out, t.Replica...)
	}
	return out
}

// vfc43Fingerprint names the class of a collision between two tuples with different canonical forms.
func vfc43Fingerprint(a, b vfc43T) (string, []string) {
	if a.Kind != b.Kind {
		k := []string{a.Kind, b.Kind}
		sort.Strings(k)
		for _, s := range append(vfc43FreeText(a), vfc43FreeText(b)...) {
			if strings.Contains(s, ":") {
				return k[0] + "-vs-" + k[1] + ":unescaped-colon", nil
			}
		}
		return k[0] + "-vs-" + k[1] + ":collide", nil
	}
	fa, fb := a.fields(), b.fields()
	var diff []string
	for i := range fa {
		if fa[i][1] != fb[i][1] {
			diff = append(diff, fa[i][0])
		}
	}
	if len(diff) == 1 && diff[0] == "replica_labels" && a.Kind == "range" {
		for _, s := range append(append([]string(nil), a.Replica...), b.Replica...) {
			if strings.Contains(s, ",") {
				return "range:replica-labels:unescaped-comma", diff
			}
		}
	}
	if len(diff) >= 2 {
		// a boundary between key fields moved: possible only if a free-text field that is part of the key differs
		// between the two requests and holds the separator in one of them
		shift := map[string]map[string]bool{"range": {"tenant": true, "query": true, "engine": true, "replica_labels": true},
			"labels": {"tenant": true, "label": true}, "series": {"tenant": true}}[a.Kind]
		for i := range fa {
			if fa[i][1] != fb[i][1] && shift[fa[i][0]] && (strings.Contains(fa[i][1], ":") || strings.Contains(fb[i][1], ":")) {
				return a.Kind + ":unescaped-colon", diff
			}
		}
	}
	return a.Kind + ":collide:differ=" + strings.Join(diff, ","), diff
}

// --- ambiguity search: re-parse a key at other separator positions --------------------------------

func vfc43CanonInt(s string) (int64, bool) {
	v, err := strconv.ParseInt(s, 10, 64)
	if err != nil || strconv.FormatInt(v, 10) != s {
		return 0, false
	}
	return v, true
}

// vfc43ParseMatchers parses the %s rendering of [][]*labels.Matcher back ("[[a=\"1\" b!=\"\"] [c=\"2\"]]").
func vfc43ParseMatchers(s string) ([][]vfc43M, bool) {
	if s == "[]" {
		return [][]vfc43M{}, true
	}
	if !strings.HasPrefix(s, "[") || !strings.HasSuffix(s, "]") {
		return nil, false
	}
	s = s[1 : len(s)-1]
	var out [][]vfc43M
	for len(s) > 0 {
		if s[0] != '[' {
			return nil, false
		}
		s = s[1:]
		var set []vfc43M
		for {
			if len(s) > 0 && s[0] == ']' {
				s = s[1:]
				break
			}
			var m vfc43M
			if len(s) > 0 && s[0] == '"' {
				q, err := strconv.QuotedPrefix(s)
				if err != nil {
					return nil, false
				}
				m.N, _ = strconv.Unquote(q)
				s = s[len(q):]
			} else {
				i := 0
				for i < len(s) && (s[i] == '_' || (s[i] >= 'a' && s[i] <= 'z') || (s[i] >= 'A' && s[i] <= 'Z') || (i > 0 && s[i] >= '0' && s[i] <= '9')) {
					i++
				}
				if i == 0 {
					return nil, false
				}
				m.N, s = s[:i], s[i:]
			}
			switch {
			case strings.HasPrefix(s, "=~"):
				m.T, s = labels.MatchRegexp, s[2:]
			case strings.HasPrefix(s, "!~"):
				m.T, s = labels.MatchNotRegexp, s[2:]
			case strings.HasPrefix(s, "!="):
				m.T, s = labels.MatchNotEqual, s[2:]
			case strings.HasPrefix(s, "="):
				m.T, s = labels.MatchEqual, s[1:]
			default:
				return nil, false
			}
			q, err := strconv.QuotedPrefix(s)
			if err != nil {
				return nil, false
			}
			m.V, _ = strconv.Unquote(q)
			s = s[len(q):]
			set = append(set, m)
			if len(s) > 0 && s[0] == ' ' {
				s = s[1:]
			}
		}
		out = append(out, set)
		if len(s) > 0 {
			if s[0] != ' ' {
				return nil, false
			}
			s = s[1:]
		}
	}
	return out, true
}

// vfc43Unesc removes backslash escapes (\x -> x).
func vfc43Unesc(s string) string {
	if !strings.Contains(s, "\\") {
		return s
	}
	var b strings.Builder
	for i := 0; i < len(s); i++ {
		if s[i] == '\\' && i+1 < len(s) {
			i++
		}
		b.WriteByte(s[i])
	}
	return b.String()
}

// vfc43SplitUnesc splits at separators that are not preceded by a backslash escape.
func vfc43SplitUnesc(s string, sep byte) []string {
	var out []string
	cur := 0
	for i := 0; i < len(s); i++ {
		if s[i] == '\\' {
			i++
			continue
		}
		if s[i] == sep {
			out = append(out, s[cur:i])
			cur = i + 1
		}
	}
	return append(out, s[cur:])
}

// vfc43ParseMatchersNaive reads the rendering without any notion of escaping: a value ends at the next '"'
// that is followed by ' ' or ']'. It proposes the matcher list a rendering LOOKS like.
func vfc43ParseMatchersNaive(s string) ([][]vfc43M, bool) {
	if s == "[]" {
		return [][]vfc43M{}, true
	}
	if len(s) < 4 || s[0] != '[' || s[len(s)-1] != ']' {
		return nil, false
	}
	s = s[1 : len(s)-1]
	var out [][]vfc43M
	for len(s) > 0 {
		if s[0] != '[' {
			return nil, false
		}
		s = s[1:]
		var set []vfc43M
		for {
			if len(s) > 0 && s[0] == ']' {
				s = s[1:]
				break
			}
			i := strings.IndexAny(s, "=!")
			if i <= 0 {
				return nil, false
			}
			var m vfc43M
			m.N, s = s[:i], s[i:]
			switch {
			case strings.HasPrefix(s, "=~\""):
				m.T, s = labels.MatchRegexp, s[3:]
			case strings.HasPrefix(s, "!~\""):
				m.T, s = labels.MatchNotRegexp, s[3:]
			case strings.HasPrefix(s, "!=\""):
				m.T, s = labels.MatchNotEqual, s[3:]
			case strings.HasPrefix(s, "=\""):
				m.T, s = labels.MatchEqual, s[2:]
			default:
				return nil, false
			}
			end := -1
			for j := 0; j+1 < len(s); j++ {
				if s[j] == '"' && (s[j+1] == ' ' || s[j+1] == ']') {
					end = j
					break
				}
			}
			if end < 0 {
				return nil, false
			}
			m.V, s = s[:end], s[end+1:]
			set = append(set, m)
			if len(s) > 0 && s[0] == ' ' {
				s = s[1:]
			}
		}
		out = append(out, set)
		if len(s) > 0 {
			if s[0] != ' ' {
				return nil, false
			}
			s = s[1:]
		}
	}
	return out, true
}

// vfc43Reparse returns other tuples whose key might be the same string, obtained by cutting key at
// every combination of ':' positions. At most limit candidates.
func vfc43Reparse(key string, limit int) []vfc43T {
	if !strings.HasPrefix(key, "fe:") {
		return nil
	}
	p := strings.Split(key[3:], ":")
	var out []vfc43T
	join := func(a, b int) string { return strings.Join(p[a:b], ":") }
	// range: tenant{nt} query{nq} step si ci res shard{1|2} lookback engine{ne} partial replica{nr} analyze
	n := len(p)
	if n >= 12 && (p[n-1] == "true" || p[n-1] == "false") {
		for nt := 1; nt <= n-11 && len(out) < limit; nt++ {
			for nq := 1; nt+nq <= n-10 && len(out) < limit; nq++ {
				for sh := 1; sh <= 2; sh++ {
					i := nt + nq
					// fixed ints: step si ci res
					if i+4+sh+1 > n {
						continue
					}
					step, ok1 := vfc43CanonInt(p[i])
					si, ok2 := vfc43CanonInt(p[i+1])
					ci, ok3 := vfc43CanonInt(p[i+2])
					res, ok4 := vfc43CanonInt(p[i+3])
					if !(ok1 && ok2 && ok3 && ok4) || si <= 0 || ci < 0 || res < 0 || res > 2 || step <= 0 || ci > 1<<40/si {
						continue
					}
					var shard *[2]int64
					if sh == 1 {
						if p[i+4] != "-" {
							continue
						}
					} else {
						a, oka := vfc43CanonInt(p[i+4])
						b, okb := vfc43CanonInt(p[i+5])
						if !oka || !okb {
							continue
						}
						shard = &[2]int64{a, b}
					}
					j := i + 4 + sh
					lb, ok5 := vfc43CanonInt(p[j])
					if !ok5 {
						continue
					}
					j++
					// engine{ne} partial replica{nr} analyze : remaining = n-j parts, ne+nr = n-j-2
					rem := n - j - 2
					for ne := 1; ne < rem+1 && len(out) < limit; ne++ {
						nr := rem - ne
						if nr < 1 {
							continue
						}
						pb := p[j+ne]
						if pb != "true" && pb != "false" {
							continue
						}
						var rep []string
						if rs := join(j+ne+1, j+ne+1+nr); rs != "" {
							rep = strings.Split(rs, ",")
						}
						out = append(out, vfc43T{Kind: "range", Tenant: join(0, nt), Query: join(nt, nt+nq), Step: step, SplitMs: si, Start: ci * si,
							MSR: []int64{3600000, 300000, 0}[res], Shard: shard, Lookback: lb, Engine: join(j, j+ne), Partial: pb == "true",
							Replica: rep, Analyze: p[n-1] == "true"})
					}
				}
			}
		}
	}
	// labels / series: X : si : ci with X = tenant:label:matchers or tenant:matchers
	if n >= 4 {
		si, ok1 := vfc43CanonInt(p[n-2])
		ci, ok2 := vfc43CanonInt(p[n-1])
		if ok1 && ok2 && si > 0 && ci >= 0 && ci <= 1<<40/si {
			m := n - 2
			add := func(t vfc43T) {
				out = append(out, t)
				if u := vfc43Unesc(t.Tenant); u != t.Tenant { // keys may hold the tenant / label escaped
					t.Tenant = u
					out = append(out, t)
				}
				if t.Kind == "labels" {
					if u := vfc43Unesc(t.Label); u != t.Label {
						t.Label = u
						out = append(out, t)
					}
				}
			}
			parsers := []func(string) ([][]vfc43M, bool){vfc43ParseMatchers, vfc43ParseMatchersNaive}
			for a := 1; a < m && len(out) < limit; a++ {
				for _, parse := range parsers {
					// series, format tenant:matchers
					if ms, ok := parse(join(a, m)); ok {
						add(vfc43T{Kind: "series", Tenant: join(0, a), Matchers: ms, SplitMs: si, Start: ci * si})
					}
					// series, format tenant:matchers:partial:replicas
					for b := a + 1; b < m && len(out) < limit; b++ {
						if p[b] != "true" && p[b] != "false" {
							continue
						}
						if ms, ok := parse(join(a, b)); ok {
							var rep []string
							if rs := join(b+1, m); rs != "" {
								for _, x := range vfc43SplitUnesc(rs, ',') {
									rep = append(rep, vfc43Unesc(x))
								}
							}
							add(vfc43T{Kind: "series", Tenant: join(0, a), Matchers: ms, SplitMs: si, Start: ci * si, Partial: p[b] == "true", Replica: rep})
						}
					}
					for b := a + 1; b < m && len(out) < limit; b++ {
						if ms, ok := parse(join(b, m)); ok {
							add(vfc43T{Kind: "labels", Tenant: join(0, a), Label: join(a, b), Matchers: ms, SplitMs: si, Start: ci * si})
						}
					}
				}
			}
		}
	}
	return out
}

// --- the monitor ------------------------------------------------------------------------------------

var vfc43AltSteps = []int64{1, 2, 3, 7, 10, 11, 250, 500, 1000, 2000, 5000, 7000, 10000, 15000, 20000, 30000, 45000, 60000, 90000, 120000,
	300000, 600000, 900000, 1800000, 3600000, 7200000, 3 * 3600000, 6 * 3600000, 12 * 3600000, 24 * 3600000}

func TestVF_C43(t *testing.T) {
	r := vfkit.Start(t, "C43")
	defer r.Finish()
	thorough := r.Thorough()
	sp := vfc43NewSpace(r.Seed(), thorough)
	sp.rnd = r.N(40000, 1500000)
	total := sp.exh + sp.rnd
	var bl []string
	for _, b := range sp.blocks {
		bl = append(bl, fmt.Sprintf("%s (%d)", b.name, b.size()))
	}
	r.Rule("tuple id -> cacheable request (range/labels/series): bounded-exhaustive blocks over separator alphabets {a,:,1}^<=3 (thorough <=4; one length less for the query/label dimension of the wide blocks) plus hand-picked strings for tenant/query/engine/label, all shard/replica/matcher/resolution options [" +
		strings.Join(bl, "; ") + "], then pseudo-random tuples over the adversarial alphabet; tenant resolved by the real tenant resolver (rejected tenants are skipped and counted); " +
		"oracle: injectivity - two tuples with different canonical parameter tuples (replica labels as set without empty names, resolution by class, split bucket = start/interval) must not get the same real GenerateCacheKey; " +
		"every 16th key additionally re-parsed at all other ':' positions into other tuples that are fed back to the real generator (ambiguity search); alternative keys of a range request must be primary keys of the same request at a finer step dividing the step; " +
		"distinct = canonical tuple; non-trivial = accepted tenant and cacheable request")
	r.Require(int64(total)*8/10, total/2)
	r.Assume("a request is cacheable iff the real shouldCache accepts it (dedup on, no store matchers, caching not disabled); tenants are those the real tenant.TenantIDs accepts")
	gen := newThanosCacheKeyGenerator()
	seen := make(map[uint64]uint32, total)
	hash := func(s string) uint64 {
		// FNV-1a 64
		h := uint64(14695981039346656037)
		for i := 0; i < len(s); i++ {
			h ^= uint64(s[i])
			h *= 1099511628211
		}
		return h
	}
	report := func(c int, a, b vfc43T, key string, how string) {
		fp, diff := vfc43Fingerprint(a, b)
		r.Violation(c, fp, fmt.Sprintf("two cacheable requests that differ in %v share the cache key %q (%s)", diff, key, how),
			map[string]any{"key": key, "request_1": a.witness(), "request_2": b.witness(), "differing_parameters": diff, "found_by": how})
	}
	const chunk = 4096
	nCases := (total + chunk - 1) / chunk
	for c := 0; c < nCases; c++ {
		if !r.Want(c) && !r.Replaying() {
			continue
		}
		lo, hi := c*chunk, (c+1)*chunk
		if hi > total {
			hi = total
		}
		// on replay of case c all earlier chunks are still inserted (the map is the state), but only case c reports
		rep := r.Want(c)
		r.Guard(c, "GenerateCacheKey", map[string]any{"ids": []int{lo, hi}}, func() {
			for id := lo; id < hi; id++ {
				tp := sp.tuple(uint32(id))
				key, ok := vfc43Key(gen, tp)
				if !ok {
					r.Count("rejected_tenant_or_uncacheable", 1)
					continue
				}
				r.Eval(1)
				r.Distinct(tp.canon())
				if id%50021 == 0 {
					r.Sample(map[string]any{"request": tp.witness(), "key": key})
				}
				h := hash(key)
				if prev, dup := seen[h]; dup {
					pt := sp.tuple(prev)
					pk, _ := vfc43Key(gen, pt)
					if pk == key && pt.canon() != tp.canon() {
						r.Count("collisions", 1)
						if rep {
							report(c, pt, tp, key, "injectivity search")
						}
					}
				} else {
					seen[h] = uint32(id)
				}
				if tp.Kind == "range" && (id%4 == 0 || tp.Auto) {
					// Alternative keys: the frontend may answer tp from the entry stored under such a key. It must be the
					// primary key of a request that equals tp in every result-changing parameter except the step
					// (finer, dividing tp's step): same tenant, query, resolution class, shard, ...
					alts := gen.GenerateCacheKeyAlternatives(tp.Tenant, tp.request())
					for _, ak := range alts {
						r.Eval(1)
						r.Count("alternative_keys", 1)
						found := int64(0)
						base := tp
						base.Auto, base.MSR = false, tp.effMSR() // the resolution the request is entitled to
						for _, s := range vfc43AltSteps {
							t2 := base
							t2.Step = s
							if k2, _ := vfc43Key(gen, t2); k2 == ak {
								found = s
								break
							}
						}
						switch {
						case found == 0:
							// whose primary key is it then? look among requests of the other resolution classes
							var other *vfc43T
							for _, s := range vfc43AltSteps {
								for _, msr := range []int64{0, 300000, 3600000} {
									t2 := base
									t2.Step, t2.MSR = s, msr
									if k2, _ := vfc43Key(gen, t2); k2 == ak && other == nil {
										o := t2
										other = &o
									}
								}
							}
							if !rep {
								break
							}
							if other != nil {
								b := *other
								if tp.Auto && vfc43ResClass(b.Step/5) == vfc43ResClass(b.MSR) {
									b.Auto = true // the same key is the primary key of the auto request with that step
								}
								r.Violation(c, "range:alternative-key:is-primary-key-of-request-differing-in=resolution",
									fmt.Sprintf("alternative key %q of a request with step %d and resolution class %d is the primary key of a request with step %d and resolution class %d",
										ak, tp.Step, vfc43ResClass(tp.effMSR()), b.Step, vfc43ResClass(b.effMSR())),
									map[string]any{"request": tp.witness(), "alternative_key": ak, "primary_key_of": b.witness()})
							} else {
								r.Violation(c, "range:alternative-key:not-a-primary-key-of-this-request-at-another-step", fmt.Sprintf("alternative key %q of a request with step %d", ak, tp.Step),
									map[string]any{"request": tp.witness(), "alternative_key": ak})
							}
						case (found >= tp.Step || tp.Step%found != 0) && rep:
							r.Violation(c, "range:alternative-key:step-does-not-divide", fmt.Sprintf("alternative key %q is the key of step %d, request step %d", ak, found, tp.Step),
								map[string]any{"request": tp.witness(), "alternative_key": ak, "alternative_step": found})
						}
					}
				}
				if id%16 == 0 {
					for _, ot := range vfc43Reparse(key, 64) {
						k2, ok := vfc43Key(gen, ot)
						r.Eval(1)
						r.Count("reparsed_candidates", 1)
						if ok && k2 == key && ot.canon() != tp.canon() {
							r.Count("collisions", 1)
							if rep {
								report(c, tp, ot, key, "ambiguity search (key re-parsed at other separator positions)")
							}
						}
					}
				}
			}
		})
	}
	r.Extra("tuple_space", map[string]any{"exhaustive": sp.exh, "pseudo_random": sp.rnd})
}
