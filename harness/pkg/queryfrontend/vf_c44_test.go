//go:build verif

package queryfrontend

import (
	"context"
	"fmt"
	"math"
	"math/rand"
	"sort"
	"strings"
	"sync"
	"testing"
	"time"

	"github.com/cortexproject/promqlsmith"
	"github.com/prometheus/prometheus/model/histogram"
	"github.com/prometheus/prometheus/model/labels"
	"github.com/prometheus/prometheus/promql"
	"github.com/prometheus/prometheus/promql/parser"
	"github.com/prometheus/prometheus/storage"
	"github.com/prometheus/prometheus/tsdb/chunkenc"
	"github.com/prometheus/prometheus/tsdb/chunks"
	"github.com/prometheus/prometheus/util/annotations"
	"github.com/weaveworks/common/user"

	"github.com/thanos-io/thanos/internal/cortex/cortexpb"
	"github.com/thanos-io/thanos/internal/cortex/querier/queryrange"
	"github.com/thanos-io/thanos/pkg/querysharding"
	"github.com/thanos-io/thanos/pkg/store/labelpb"
	"github.com/thanos-io/thanos/pkg/store/storepb"
	"github.com/thanos-io/thanos/pkg/verifhook/vfkit"
)

// ---------------------------------------------------------------------------------------------
// C44 — sharded query execution returns the unsharded result.
//
// The real PromQLShardingMiddleware (real analyzer, real shard-request construction, real codec
// merge) sits in front of a next-handler that evaluates each request with the Prometheus PromQL
// engine over an in-memory storage whose Select keeps exactly the series accepted by the REAL
// storepb.ShardInfo matcher of that request. The merged answer is compared with one evaluation
// over all series.
// ---------------------------------------------------------------------------------------------

type vfc44Limits struct{ par int }

func (vfc44Limits) MaxQueryLookback(string) time.Duration  { return 0 }
func (vfc44Limits) MaxQueryLength(string) time.Duration    { return 0 }
func (l vfc44Limits) MaxQueryParallelism(string) int       { return l.par }
func (vfc44Limits) MaxCacheFreshness(string) time.Duration { return time.Minute }

func vfc44Mix(x uint64) uint64 {
	x ^= x >> 33
	x *= 0xff51afd7ed558ccd
	x ^= x >> 33
	x *= 0xc4ceb9fe1a85ec53
	x ^= x >> 33
	return x
}

func vfc44StrHash(s string) uint64 {
	h := uint64(14695981039346656037)
	for i := 0; i < len(s); i++ {
		h ^= uint64(s[i])
		h *= 1099511628211
	}
	return h
}

type vfc44Sample struct {
	t int64
	f float64
}

func (s vfc44Sample) T() int64                      { return s.t }
func (s vfc44Sample) F() float64                    { return s.f }
func (s vfc44Sample) H() *histogram.Histogram       { return nil }
func (s vfc44Sample) FH() *histogram.FloatHistogram { return nil }
func (s vfc44Sample) Type() chunkenc.ValueType      { return chunkenc.ValFloat }
func (s vfc44Sample) Copy() chunks.Sample           { return s }

type vfc44Series struct {
	lset    labels.Labels
	samples []chunks.Sample
}

// vfc44Store is an immutable in-memory storage; shard != nil restricts Select to one shard.
type vfc44Store struct {
	series []vfc44Series // sorted by labels
	shard  *storepb.ShardInfo
	pool   *sync.Pool
}

func (s *vfc44Store) Querier(_, _ int64) (storage.Querier, error) { return s, nil }
func (s *vfc44Store) Close() error                                { return nil }
func (s *vfc44Store) LabelValues(context.Context, string, *storage.LabelHints, ...*labels.Matcher) ([]string, annotations.Annotations, error) {
	return nil, nil, nil
}
func (s *vfc44Store) LabelNames(context.Context, *storage.LabelHints, ...*labels.Matcher) ([]string, annotations.Annotations, error) {
	return nil, nil, nil
}

func (s *vfc44Store) Select(_ context.Context, _ bool, _ *storage.SelectHints, ms ...*labels.Matcher) storage.SeriesSet {
	var m *storepb.ShardMatcher
	if s.shard != nil {
		m = s.shard.Matcher(s.pool)
		defer m.Close()
	}
	var out []storage.Series
	for _, sr := range s.series {
		ok := true
		for _, mt := range ms {
			if !mt.Matches(sr.lset.Get(mt.Name)) {
				ok = false
				break
			}
		}
		if ok && m != nil && !vfc44ShardMatch(m, sr.lset) {
			ok = false
		}
		if ok {
			out = append(out, storage.NewListSeries(sr.lset, sr.samples))
		}
	}
	return &vfc44Set{ss: out, i: -1}
}

// vfc44ViaProxy: which of the two real filter paths serves a series. Stores that shard themselves call
// ShardMatcher.MatchesLabels; for stores that cannot, the proxy filters with MatchesZLabels. A fleet is mixed, so a
// fixed pseudo-random half of the series (by label set) goes through each path.
func vfc44ViaProxy(lset labels.Labels) bool { return vfc44Mix(vfc44StrHash(lset.String()))%2 == 0 }

func vfc44ShardMatch(m *storepb.ShardMatcher, lset labels.Labels) bool {
	if vfc44ViaProxy(lset) {
		return m.MatchesZLabels(labelpb.ZLabelsFromPromLabels(lset))
	}
	return m.MatchesLabels(lset)
}

type vfc44Set struct {
	ss []storage.Series
	i  int
}

func (s *vfc44Set) Next() bool                        { s.i++; return s.i < len(s.ss) }
func (s *vfc44Set) At() storage.Series                { return s.ss[s.i] }
func (s *vfc44Set) Err() error                        { return nil }
func (s *vfc44Set) Warnings() annotations.Annotations { return nil }

const (
	vfc44T0    = int64(1_600_000_000_000)
	vfc44Start = vfc44T0 + 10*60000
	vfc44End   = vfc44T0 + 24*60000
	vfc44Step  = int64(60000)
)

// vfc44GenData: 5..60 series over the metrics m1, m2 (gauges), req_total (counter), lat_bucket
// (classic histogram with le) and labels a, b, c (c missing on some series), job.
func vfc44GenData(rng *rand.Rand) []vfc44Series {
	type key struct{ name, a, b, c, le string }
	want := 5 + rng.Intn(56)
	na, nb := 1+rng.Intn(4), 1+rng.Intn(3)
	seen := map[string]bool{}
	var out []vfc44Series
	noA := false
	add := func(name, a, b, c, le string, counter bool, scale float64) {
		ls := []string{"__name__", name, "job", "j" + a[len(a)-1:]}
		if !noA {
			ls = append(ls, "a", a)
		}
		if b != "" {
			ls = append(ls, "b", b)
		}
		if c != "" {
			ls = append(ls, "c", c)
		}
		if le != "" {
			ls = append(ls, "le", le)
		}
		lset := labels.FromStrings(ls...)
		if seen[lset.String()] {
			return
		}
		seen[lset.String()] = true
		h := vfc44Mix(vfc44StrHash(lset.String()) ^ uint64(rng.Int63()))
		var smp []chunks.Sample
		acc := float64(h % 50)
		gapFrom := int64(-1)
		if rng.Intn(6) == 0 {
			gapFrom = vfc44T0 + int64(rng.Intn(30))*60000
		}
		for t := vfc44T0; t <= vfc44T0+40*60000; t += 30000 {
			if gapFrom >= 0 && t >= gapFrom && t < gapFrom+8*60000 {
				continue // series with a hole longer than the lookback
			}
			hv := float64(vfc44Mix(h^uint64(t)) % 20)
			v := hv
			if counter {
				acc += hv * scale
				v = acc
			}
			smp = append(smp, vfc44Sample{t, v})
		}
		out = append(out, vfc44Series{lset: lset, samples: smp})
	}
	for tries := 0; len(out) < want && tries < 400; tries++ {
		a := fmt.Sprintf("a%d", rng.Intn(na))
		b := fmt.Sprintf("b%d", rng.Intn(nb))
		if rng.Intn(7) == 0 {
			b = "" // series without label b
		}
		noA = rng.Intn(9) == 0 // series without label a
		c := ""
		if rng.Intn(3) != 0 {
			c = fmt.Sprintf("c%d", rng.Intn(2))
		}
		switch rng.Intn(5) {
		case 0:
			add("m1", a, b, c, "", false, 1)
		case 1:
			add("m2", a, b, c, "", false, 1)
		case 2:
			add("req_total", a, b, c, "", true, 1)
		default:
			// a whole histogram: cumulative buckets
			for i, le := range []string{"0.1", "1", "5", "+Inf"} {
				add("lat_bucket", a, b, c, le, true, float64(i+1))
			}
		}
	}
	sort.Slice(out, func(i, j int) bool { return labels.Compare(out[i].lset, out[j].lset) < 0 })
	return out
}

// --- hand-written program grammar biased to the analyzer's cases -------------------------------

type vfc44Gen struct {
	rng *rand.Rand
}

func (g *vfc44Gen) pick(xs ...string) string { return xs[g.rng.Intn(len(xs))] }

func (g *vfc44Gen) labelList(withLe bool) string {
	all := []string{"a", "b", "c", "job"}
	g.rng.Shuffle(len(all), func(i, j int) { all[i], all[j] = all[j], all[i] })
	n := g.rng.Intn(4)
	if g.rng.Intn(3) != 0 && n == 0 {
		n = 1
	}
	l := append([]string(nil), all[:n]...)
	if withLe {
		l = append(l, "le")
	}
	return strings.Join(l, ", ")
}

func (g *vfc44Gen) selector(hist bool) string {
	if hist {
		return "lat_bucket" + g.pick("", "", `{a="a0"}`, `{b!="b0"}`)
	}
	switch g.rng.Intn(10) {
	case 0:
		return `{__name__=~"m1|m2"}`
	case 1:
		return `{__name__=~"m.*", a=~"a0|a1"}`
	case 2:
		return `{job="j0"}`
	case 3:
		return `{a="a0", __name__!="lat_bucket"}`
	default:
		return g.pick("m1", "m2", "m1", "req_total") + g.pick("", "", `{a="a0"}`, `{b=~"b0|b1"}`, `{c=""}`, `{c!=""}`)
	}
}

func (g *vfc44Gen) instant(depth int) string {
	switch g.rng.Intn(12) {
	case 0:
		return "rate(" + g.selector(false) + "[3m])"
	case 1:
		return "increase(req_total[5m])"
	case 2:
		return g.pick("max_over_time", "avg_over_time", "sum_over_time", "last_over_time", "count_over_time") + "(" + g.selector(false) + "[2m])"
	case 3:
		return g.selector(false) + " offset " + g.pick("1m", "2m", "-1m")
	case 4:
		return g.selector(false) + fmt.Sprintf(" @ %d", (vfc44T0+int64(5+g.rng.Intn(20))*60000)/1000)
	case 5:
		return `label_replace(` + g.selector(false) + `, "` + g.pick("dst", "a", "b") + `", "$1", "` + g.pick("a", "b", "c") + `", "(.*)")`
	case 6:
		return `label_join(` + g.selector(false) + `, "` + g.pick("dst", "a") + `", "-", "a", "b")`
	case 7:
		return g.pick("abs", "ceil", "exp", "sgn", "timestamp") + "(" + g.selector(false) + ")"
	case 8:
		if depth > 0 {
			return "(" + g.vector(depth-1) + ")"
		}
	}
	return g.selector(false)
}

func (g *vfc44Gen) agg(depth int) string {
	inner := g.instant(depth)
	if depth > 0 && g.rng.Intn(3) == 0 {
		inner = g.vector(depth - 1)
	}
	mod := g.pick("by", "by", "without") + " (" + g.labelList(false) + ")"
	op := g.pick("sum", "sum", "avg", "min", "max", "count", "group", "stddev", "stdvar")
	switch g.rng.Intn(10) {
	case 0:
		return fmt.Sprintf("%s %s (%d, %s)", g.pick("topk", "bottomk"), mod, 1+g.rng.Intn(3), inner)
	case 1:
		return fmt.Sprintf("quantile %s (0.%d, %s)", mod, 1+g.rng.Intn(9), inner)
	case 2:
		return fmt.Sprintf(`count_values %s ("%s", %s)`, mod, g.pick("v", "a", "dst"), inner)
	case 3:
		return fmt.Sprintf("%s(%s) %s", op, inner, mod) // modifier after
	case 4:
		return fmt.Sprintf("%s(%s)", op, inner) // no grouping
	}
	return fmt.Sprintf("%s %s (%s)", op, mod, inner)
}

func (g *vfc44Gen) hist(depth int) string {
	q := fmt.Sprintf("0.%d", 1+g.rng.Intn(9))
	switch g.rng.Intn(5) {
	case 0:
		return "histogram_quantile(" + q + ", rate(" + g.selector(true) + "[3m]))"
	case 1:
		return "histogram_quantile(" + q + ", sum without (" + g.pick("a", "b", "c", "a, b") + ") (rate(" + g.selector(true) + "[3m])))"
	case 2:
		return "histogram_quantile(" + q + ", " + g.selector(true) + ")"
	}
	return "histogram_quantile(" + q + ", sum by (" + g.labelList(true) + ") (rate(" + g.selector(true) + "[3m])))"
}

func (g *vfc44Gen) binary(depth int) string {
	l, r := g.vector(depth-1), g.vector(depth-1)
	if g.rng.Intn(3) == 0 {
		r = g.pick("2", "0.5", "time()", "vector(1)", "scalar(sum(m1))")
	}
	op := g.pick("+", "-", "*", "/", ">", "==", "!= bool", "< bool", "and", "or", "unless", "%", "^")
	setOp := op == "and" || op == "or" || op == "unless"
	m := ""
	switch g.rng.Intn(5) {
	case 0:
		m = " on (" + g.labelList(false) + ")"
	case 1:
		m = " ignoring (" + g.labelList(false) + ")"
	case 2:
		m = " on (" + g.labelList(false) + ")"
		if !setOp {
			m += g.pick(" group_left", " group_right", " group_left (c)", "")
		}
	}
	return l + " " + op + m + " " + r
}

func (g *vfc44Gen) vector(depth int) string {
	if depth <= 0 {
		if g.rng.Intn(3) == 0 {
			return g.instant(0)
		}
		return g.agg(0)
	}
	switch g.rng.Intn(12) {
	case 0, 1, 2, 3:
		return g.agg(depth)
	case 4, 5:
		return g.binary(depth)
	case 6:
		return g.hist(depth)
	case 7:
		return g.pick("max_over_time", "sum_over_time", "avg_over_time") + "((" + g.vector(depth-1) + ")[3m:1m])"
	case 8:
		return g.pick("absent", "absent_over_time") + "(" + g.pick(g.selector(false), g.selector(false)+"[2m]") + ")"
	case 9:
		return g.pick("-", "") + "(" + g.vector(depth-1) + ")"
	case 10:
		return g.pick("sort", "sort_desc", "abs", "round") + "(" + g.vector(depth-1) + ")"
	}
	return g.instant(depth)
}

func (g *vfc44Gen) program() string {
	return g.vector(1 + g.rng.Intn(3))
}

// --- evaluation -----------------------------------------------------------------------------------

type vfc44Env struct {
	eng   *promql.Engine
	data  []vfc44Series
	pool  *sync.Pool
	codec *queryRangeCodec
}

type vfc44Res map[string]map[int64]float64

func (e *vfc44Env) eval(ctx context.Context, q string, start, end, step int64, shard *storepb.ShardInfo) (vfc44Res, []queryrange.SampleStream, error) {
	st := &vfc44Store{series: e.data, shard: shard, pool: e.pool}
	qry, err := e.eng.NewRangeQuery(ctx, st, nil, q, time.UnixMilli(start), time.UnixMilli(end), time.Duration(step)*time.Millisecond)
	if err != nil {
		return nil, nil, err
	}
	defer qry.Close()
	r := qry.Exec(ctx)
	if r.Err != nil {
		return nil, nil, r.Err
	}
	mat, err := r.Matrix()
	if err != nil {
		return nil, nil, err
	}
	out := vfc44Res{}
	var streams []queryrange.SampleStream
	for _, s := range mat {
		if len(s.Histograms) > 0 {
			return nil, nil, fmt.Errorf("native histogram result not supported by the harness")
		}
		m := map[int64]float64{}
		ss := queryrange.SampleStream{Labels: cortexpb.FromLabelsToLabelAdapters(s.Metric)}
		for _, p := range s.Floats {
			m[p.T] = p.F
			ss.Samples = append(ss.Samples, cortexpb.Sample{TimestampMs: p.T, Value: p.F})
		}
		if _, dup := out[s.Metric.String()]; dup {
			return nil, nil, fmt.Errorf("engine returned a label set twice")
		}
		out[s.Metric.String()] = m
		streams = append(streams, ss)
	}
	return out, streams, nil
}

func vfc44FromResponse(resp queryrange.Response) (vfc44Res, string) {
	pr, ok := resp.(*queryrange.PrometheusResponse)
	if !ok {
		return nil, fmt.Sprintf("merged response has type %T", resp)
	}
	out := vfc44Res{}
	for _, s := range pr.Data.Result {
		k := cortexpb.FromLabelAdaptersToLabels(s.Labels).String()
		if _, dup := out[k]; dup {
			return nil, "merged response holds series " + k + " twice"
		}
		m := map[int64]float64{}
		for _, p := range s.Samples {
			if _, dup := m[p.TimestampMs]; dup {
				return nil, fmt.Sprintf("merged response holds series %s t=%d twice", k, p.TimestampMs)
			}
			m[p.TimestampMs] = p.Value
		}
		out[k] = m
	}
	return out, ""
}

func vfc44Close(a, b float64) bool {
	if math.IsNaN(a) || math.IsNaN(b) {
		return math.IsNaN(a) && math.IsNaN(b)
	}
	if math.IsInf(a, 0) || math.IsInf(b, 0) {
		return a == b
	}
	d := math.Abs(a - b)
	return d <= 1e-9*math.Max(1, math.Max(math.Abs(a), math.Abs(b)))
}

// vfc44Diff: symptom ("" = same series and values) and text.
func vfc44Diff(want, got vfc44Res) (string, string) {
	keys := func(m vfc44Res) []string {
		var k []string
		for s := range m {
			if len(m[s]) > 0 {
				k = append(k, s)
			}
		}
		sort.Strings(k)
		return k
	}
	for _, k := range keys(want) {
		if len(got[k]) == 0 {
			return "series-missing", fmt.Sprintf("series %s of the unsharded result is missing from the merged shard results", k)
		}
	}
	for _, k := range keys(got) {
		if len(want[k]) == 0 {
			return "series-added", fmt.Sprintf("series %s is in the merged shard results but not in the unsharded result", k)
		}
	}
	for _, k := range keys(want) {
		w, g := want[k], got[k]
		var ts []int64
		for t := range w {
			ts = append(ts, t)
		}
		sort.Slice(ts, func(i, j int) bool { return ts[i] < ts[j] })
		for _, t := range ts {
			gv, ok := g[t]
			if !ok {
				return "sample-missing", fmt.Sprintf("series %s lacks t=%d in the merged shard results", k, t)
			}
			if !vfc44Close(w[t], gv) {
				return "value-differs", fmt.Sprintf("series %s t=%d: merged shard results %v, unsharded %v", k, t, gv, w[t])
			}
		}
		if len(g) != len(w) {
			return "sample-added", fmt.Sprintf("series %s has %d samples in the merged shard results, %d unsharded", k, len(g), len(w))
		}
	}
	return "", ""
}

// vfc44Outcome of running one program through the sharding middleware.
type vfc44Outcome struct {
	perShard map[int64]vfc44Res // result of every shard request, by shard index
	want     vfc44Res
	sharded  bool
	infos    []*storepb.ShardInfo
	symptom  string // "" held; partition:* ; result:*
	what     string
	rejected string // the engine rejected the program (unsharded) -> not a case
}

func (e *vfc44Env) run(q string, shards int) vfc44Outcome {
	var o vfc44Outcome
	ctx, cancel := context.WithTimeout(user.InjectOrgID(context.Background(), "t"), 2*time.Minute)
	defer cancel()
	var mu sync.Mutex
	var shardErr error
	next := queryrange.HandlerFunc(func(ctx context.Context, r queryrange.Request) (queryrange.Response, error) {
		tr := r.(*ThanosQueryRangeRequest)
		mu.Lock()
		if tr.ShardInfo != nil {
			o.sharded = true
			o.infos = append(o.infos, tr.ShardInfo)
		}
		mu.Unlock()
		res, streams, err := e.eval(ctx, tr.Query, tr.Start, tr.End, tr.Step, tr.ShardInfo)
		if err != nil {
			mu.Lock()
			shardErr = err
			mu.Unlock()
			return nil, err
		}
		if tr.ShardInfo != nil {
			mu.Lock()
			if o.perShard == nil {
				o.perShard = map[int64]vfc44Res{}
			}
			o.perShard[tr.ShardInfo.ShardIndex] = res
			mu.Unlock()
		}
		return &queryrange.PrometheusResponse{Status: "success", Data: queryrange.PrometheusData{ResultType: "matrix", Result: streams}}, nil
	})
	h := PromQLShardingMiddleware(querysharding.NewQueryAnalyzer(), shards, vfc44Limits{par: 1 + shards%3}, e.codec, nil).Wrap(next)
	req := &ThanosQueryRangeRequest{Path: "/api/v1/query_range", Query: q, Start: vfc44Start, End: vfc44End, Step: vfc44Step, Dedup: true}
	resp, err := h.Do(ctx, req)
	if !o.sharded {
		if err != nil {
			o.rejected = err.Error()
		}
		return o
	}
	want, _, werr := e.eval(ctx, q, vfc44Start, vfc44End, vfc44Step, nil)
	if werr != nil {
		o.rejected = werr.Error()
		return o
	}
	o.want = want
	// partition checks on the shard infos the middleware produced
	if sym, what := vfc44Partition(e.data, o.infos, shards, e.pool); sym != "" {
		o.symptom, o.what = sym, what
		return o
	}
	if err != nil {
		o.symptom, o.what = "result:shard-evaluation-fails", fmt.Sprintf("unsharded evaluation succeeds, sharded fails: %v (%v)", err, shardErr)
		return o
	}
	got, bad := vfc44FromResponse(resp)
	if bad != "" {
		o.symptom, o.what = "result:merged-response-malformed", bad
		return o
	}
	if sym, what := vfc44Diff(want, got); sym != "" {
		o.symptom, o.what = "result:"+sym, what
	}
	return o
}

// vfc44Partition: every series in exactly one shard; series agreeing on the sharding labels share a shard.
func vfc44Partition(data []vfc44Series, infos []*storepb.ShardInfo, shards int, pool *sync.Pool) (string, string) {
	if len(infos) != shards {
		return "partition:wrong-number-of-shard-requests", fmt.Sprintf("%d shard requests for %d shards", len(infos), shards)
	}
	byIdx := map[int64]*storepb.ShardInfo{}
	for _, in := range infos {
		if in.TotalShards != int64(shards) {
			return "partition:wrong-total-shards", fmt.Sprintf("total_shards=%d, configured %d", in.TotalShards, shards)
		}
		if _, dup := byIdx[in.ShardIndex]; dup || in.ShardIndex < 0 || in.ShardIndex >= int64(shards) {
			return "partition:shard-index-repeated-or-out-of-range", fmt.Sprintf("shard index %d", in.ShardIndex)
		}
		byIdx[in.ShardIndex] = in
	}
	ref := infos[0]
	set := map[string]bool{}
	for _, l := range ref.Labels {
		set[l] = true
	}
	home := map[string]int64{}
	for _, sr := range data {
		owner := int64(-1)
		for i := int64(0); i < int64(shards); i++ {
			m := byIdx[i].Matcher(pool)
			okL := m.MatchesLabels(sr.lset)
			okZ := m.MatchesZLabels(labelpb.ZLabelsFromPromLabels(sr.lset))
			ok := vfc44ShardMatch(m, sr.lset)
			m.Close()
			if okL != okZ {
				return "partition:MatchesLabels-and-MatchesZLabels-disagree | shard " + map[bool]string{true: "by", false: "without"}[ref.By],
					fmt.Sprintf("series %s, shard %d of %d (%v): store path MatchesLabels=%v, proxy path MatchesZLabels=%v", sr.lset, i, shards, ref.Labels, okL, okZ)
			}
			if ok {
				if owner >= 0 {
					return "partition:series-in-two-shards", fmt.Sprintf("series %s is matched by shards %d and %d", sr.lset, owner, i)
				}
				owner = i
			}
		}
		if owner < 0 {
			return "partition:series-in-no-shard", fmt.Sprintf("series %s is matched by no shard", sr.lset)
		}
		var sig strings.Builder
		sr.lset.Range(func(l labels.Label) {
			if set[l.Name] == ref.By {
				fmt.Fprintf(&sig, "%q=%q,", l.Name, l.Value)
			}
		})
		if prev, ok := home[sig.String()]; ok && prev != owner {
			return "partition:group-split-across-shards", fmt.Sprintf("series agreeing on the sharding labels {%s} (by=%v %v) are in shards %d and %d", sig.String(), ref.By, ref.Labels, prev, owner)
		}
		home[sig.String()] = owner
	}
	return "", ""
}

// --- shrinking and abstraction for stable fingerprints ---------------------------------------------------

// vfc44Shrink replaces nodes by one of their sub-expressions while the same symptom persists.
func (e *vfc44Env) shrink(q string, shards int, symptom string, budget int) string {
	for budget > 0 {
		expr, err := parser.ParseExpr(q)
		if err != nil {
			return q
		}
		q = expr.String()
		expr, err = parser.ParseExpr(q)
		if err != nil {
			return q
		}
		var cands []string
		parser.Inspect(expr, func(n parser.Node, _ []parser.Node) error {
			if n == nil {
				return nil
			}
			ne, ok := n.(parser.Expr)
			if !ok {
				return nil
			}
			np := ne.PositionRange()
			// any proper descendant of the same value type may replace the node
			parser.Inspect(ne, func(d parser.Node, _ []parser.Node) error {
				ce, ok := d.(parser.Expr)
				if !ok || d == n || ce.Type() != ne.Type() {
					return nil
				}
				cp := ce.PositionRange()
				if int(np.End) > len(q) || int(cp.End) > len(q) || cp.Start < np.Start || cp.End > np.End || (cp.Start == np.Start && cp.End == np.End) {
					return nil
				}
				cands = append(cands, q[:np.Start]+"("+q[cp.Start:cp.End]+")"+q[np.End:])
				return nil
			})
			return nil
		})
		progress := false
		for _, c := range cands {
			if budget <= 0 {
				break
			}
			ce, err := parser.ParseExpr(c)
			if err != nil {
				continue
			}
			if c = ce.String(); len(c) >= len(q) { // strictly shorter programs only: the loop terminates
				continue
			}
			budget--
			o := e.run(c, shards)
			if o.sharded && o.rejected == "" && o.symptom == symptom {
				q = c
				progress = true
				break
			}
		}
		if !progress {
			break
		}
	}
	if expr, err := parser.ParseExpr(q); err == nil {
		return expr.String()
	}
	return q
}

// vfc44Shape abstracts a program to its shape: metric/label names, numbers and strings are dropped,
// what the analyzer looks at is kept.
func vfc44Shape(q string) string {
	expr, err := parser.ParseExpr(q)
	if err != nil {
		return "unparsable"
	}
	var f func(n parser.Expr) string
	lbls := func(l []string) string {
		if len(l) == 0 {
			return "()"
		}
		for _, x := range l {
			if x == "le" {
				if len(l) == 1 {
					return "(le)"
				}
				return "(le,L)"
			}
		}
		return "(L)"
	}
	f = func(n parser.Expr) string {
		switch v := n.(type) {
		case *parser.VectorSelector:
			s := "{no-metric-name}"
			for _, m := range v.LabelMatchers {
				if m.Name == "__name__" && m.Type == labels.MatchEqual {
					s = "metric"
				}
			}
			return s
		case *parser.MatrixSelector:
			return f(v.VectorSelector) + "[r]"
		case *parser.SubqueryExpr:
			return "(" + f(v.Expr) + ")[r:s]"
		case *parser.AggregateExpr:
			op := "agg" // the analyzer treats every aggregation operator alike ...
			if v.Op == parser.COUNT_VALUES {
				op = "count_values" // ... but this one writes a label
			}
			mod := " by " + lbls(v.Grouping)
			if v.Without {
				mod = " without " + lbls(v.Grouping)
			}
			return op + mod + " (" + f(v.Expr) + ")"
		case *parser.BinaryExpr:
			op := "arith"
			switch {
			case v.Op.IsSetOperator():
				op = v.Op.String()
			case v.Op.IsComparisonOperator():
				op = "cmp"
			}
			m := ""
			if v.VectorMatching != nil && v.LHS.Type() == parser.ValueTypeVector && v.RHS.Type() == parser.ValueTypeVector {
				if v.VectorMatching.On {
					m = " on" + lbls(v.VectorMatching.MatchingLabels)
				} else if len(v.VectorMatching.MatchingLabels) > 0 {
					m = " ignoring" + lbls(v.VectorMatching.MatchingLabels)
				}
				switch v.VectorMatching.Card {
				case parser.CardManyToOne:
					m += " group_left"
				case parser.CardOneToMany:
					m += " group_right"
				}
			}
			return "(" + f(v.LHS) + ") " + op + m + " (" + f(v.RHS) + ")"
		case *parser.Call:
			var args []string
			for _, a := range v.Args {
				args = append(args, f(a))
			}
			return v.Func.Name + "(" + strings.Join(args, ",") + ")"
		case *parser.ParenExpr:
			return f(v.Expr)
		case *parser.UnaryExpr:
			return "-" + f(v.Expr)
		case *parser.NumberLiteral:
			return "N"
		case *parser.StringLiteral:
			return "S"
		case *parser.StepInvariantExpr:
			return f(v.Expr)
		}
		return fmt.Sprintf("%T", n)
	}
	return f(expr)
}

// vfc44OrderDependent: topk/bottomk whose input comes from count_values (unordered, tie-prone).
func vfc44OrderDependent(q string) bool {
	expr, err := parser.ParseExpr(q)
	if err != nil {
		return false
	}
	dep := false
	parser.Inspect(expr, func(n parser.Node, _ []parser.Node) error {
		if a, ok := n.(*parser.AggregateExpr); ok && (a.Op == parser.TOPK || a.Op == parser.BOTTOMK || a.Op == parser.LIMITK || a.Op == parser.LIMIT_RATIO) {
			parser.Inspect(a.Expr, func(m parser.Node, _ []parser.Node) error {
				if b, ok := m.(*parser.AggregateExpr); ok && b.Op == parser.COUNT_VALUES {
					dep = true
				}
				return nil
			})
		}
		return nil
	})
	return dep
}

// vfc44SplitOutput returns a label set that two different shard responses both hold at a common timestamp ("" if none).
func vfc44SplitOutput(per map[int64]vfc44Res) string {
	owner := map[string]int64{}
	var idx []int64
	for i := range per {
		idx = append(idx, i)
	}
	sort.Slice(idx, func(a, b int) bool { return idx[a] < idx[b] })
	for _, i := range idx {
		var ks []string
		for k := range per[i] {
			ks = append(ks, k)
		}
		sort.Strings(ks)
		for _, k := range ks {
			if j, ok := owner[k]; ok && j != i {
				for t := range per[i][k] {
					if _, both := per[j][k][t]; both {
						return k
					}
				}
				continue
			}
			owner[k] = i
		}
	}
	return ""
}

// vfc44NameSplit looks for two series that agree on every label except __name__ and the "without" sharding
// labels but are owned by different shards; returns a description or "".
func vfc44NameSplit(data []vfc44Series, infos []*storepb.ShardInfo, pool *sync.Pool) string {
	if len(infos) == 0 || infos[0].By {
		return ""
	}
	return vfc44SplitIgnoring(data, infos, pool, "__name__")
}

// vfc44SplitIgnoring looks for two series owned by different shards although they agree on all labels that
// matter for grouping when label ign is additionally ignored (without-mode: all labels except the sharding labels
// and ign; by-mode: the sharding labels except ign ... plus every other label, i.e. they differ in ign only).
func vfc44SplitIgnoring(data []vfc44Series, infos []*storepb.ShardInfo, pool *sync.Pool, ign string) string {
	if len(infos) == 0 {
		return ""
	}
	set := map[string]bool{ign: true}
	if !infos[0].By {
		for _, l := range infos[0].Labels {
			set[l] = true
		}
	}
	type own struct {
		shard int64
		lset  string
	}
	home := map[string]own{}
	for _, sr := range data {
		owner := int64(-1)
		for _, in := range infos {
			m := in.Matcher(pool)
			ok := vfc44ShardMatch(m, sr.lset)
			m.Close()
			if ok {
				owner = in.ShardIndex
				break
			}
		}
		var sig strings.Builder
		sr.lset.Range(func(l labels.Label) {
			if !set[l.Name] {
				fmt.Fprintf(&sig, "%q=%q,", l.Name, l.Value)
			}
		})
		if p, ok := home[sig.String()]; ok && p.shard != owner {
			return fmt.Sprintf("series %s is in shard %d, series %s in shard %d", p.lset, p.shard, sr.lset.String(), owner)
		}
		home[sig.String()] = own{owner, sr.lset.String()}
	}
	return ""
}

// vfc44CountValuesLabel returns the value label of a count_values in q that is one of the labels the shard hash
// covers (by-mode: a sharding label; without-mode: a label of the data that is not excluded), "" if none.
func vfc44CountValuesLabel(q string, info *storepb.ShardInfo, data []vfc44Series) string {
	expr, err := parser.ParseExpr(q)
	if err != nil {
		return ""
	}
	in := map[string]bool{}
	for _, l := range info.Labels {
		in[l] = true
	}
	found := ""
	parser.Inspect(expr, func(n parser.Node, _ []parser.Node) error {
		a, ok := n.(*parser.AggregateExpr)
		if !ok || a.Op != parser.COUNT_VALUES {
			return nil
		}
		var p parser.Expr = a.Param
		for {
			if pe, ok := p.(*parser.ParenExpr); ok {
				p = pe.Expr
				continue
			}
			if se, ok := p.(*parser.StepInvariantExpr); ok {
				p = se.Expr
				continue
			}
			break
		}
		sl, ok := p.(*parser.StringLiteral)
		if !ok {
			return nil
		}
		hashed := in[sl.Val]
		if !info.By {
			hashed = false
			if !in[sl.Val] {
				for _, s := range data {
					if s.lset.Has(sl.Val) {
						hashed = true
						break
					}
				}
			}
		}
		if hashed {
			found = sl.Val
		}
		return nil
	})
	return found
}

// vfc44ClassicHistFunc returns the name of a function in q that combines the le-buckets of a classic histogram.
func vfc44ClassicHistFunc(q string) string {
	expr, err := parser.ParseExpr(q)
	if err != nil {
		return ""
	}
	var names []string
	parser.Inspect(expr, func(n parser.Node, _ []parser.Node) error {
		if c, ok := n.(*parser.Call); ok && c.Func != nil && (c.Func.Name == "histogram_fraction" || c.Func.Name == "histogram_quantile") {
			names = append(names, c.Func.Name)
		}
		return nil
	})
	sort.Strings(names)
	if len(names) == 0 {
		return ""
	}
	return names[0]
}

// vfc44SelectorClass: does the program select series without pinning the metric name?
func vfc44SelectorClass(q string) string {
	expr, err := parser.ParseExpr(q)
	if err != nil {
		return "unparsable"
	}
	class := "all selectors pin the metric name"
	parser.Inspect(expr, func(n parser.Node, _ []parser.Node) error {
		if v, ok := n.(*parser.VectorSelector); ok {
			pinned := false
			for _, m := range v.LabelMatchers {
				if m.Name == "__name__" && m.Type == labels.MatchEqual {
					pinned = true
				}
			}
			if !pinned {
				class = "a selector does not pin the metric name"
			}
		}
		return nil
	})
	return class
}

var vfc44Funcs = func() []*parser.Function {
	var out []*parser.Function
	for name, f := range parser.Functions {
		if f.Experimental {
			continue
		}
		switch name {
		case "info", "sort_by_label", "sort_by_label_desc", "holt_winters", "double_exponential_smoothing", "mad_over_time", "limitk", "limit_ratio":
			continue
		}
		out = append(out, f)
	}
	sort.Slice(out, func(i, j int) bool { return out[i].Name < out[j].Name })
	return out
}()

func TestVF_C44(t *testing.T) {
	r := vfkit.Start(t, "C44")
	defer r.Finish()
	r.Rule("case = (series set, program, 2 shard counts from 1..5): 5..60 series over gauges m1/m2, counter req_total, classic histogram lat_bucket{le} with labels job and a, b, c (each of a, b, c missing on some series), samples every 30 s (some series with holes); " +
		"program from promqlsmith (40%) or a hand-written grammar biased to the analyzer's cases (aggregations by/without incl. topk/quantile/count_values, nested aggregations, binary ops with on/ignoring/group_left/right, set ops, label_replace/label_join, histogram_quantile, subqueries, @/offset, selectors without metric name); " +
		"range query of 15 steps through the real PromQLShardingMiddleware; next = Prometheus PromQL engine over in-memory storage filtered by the real ShardInfo matcher of each shard request; merge by the real codec; " +
		"a fixed pseudo-random half of the series is filtered by ShardMatcher.MatchesLabels (stores that shard themselves), the other half by MatchesZLabels (the proxy on behalf of other stores); " +
		"oracle: (1) for every series and shard index MatchesLabels == MatchesZLabels, every series matched by exactly one shard and series agreeing on the sharding labels share a shard, (2) merged result == unsharded evaluation (series set, timestamps, values within 1e-9 relative, NaN==NaN); " +
		"programs the engine rejects or the analyzer declines to shard are counted, not cases; distinct = (program, series set hash, shards); non-trivial = the middleware sharded the query and the unsharded result has >= 1 series")
	n := r.N(1100, 12000)
	r.Require(int64(n)/2, n/5)
	r.Assume("the querier applies a shard by keeping exactly the series whose full label set the ShardInfo matcher accepts (what the store API does); the engine is the Prometheus engine with 5m lookback")
	eng := promql.NewEngine(promql.EngineOpts{MaxSamples: 50_000_000, Timeout: time.Minute, LookbackDelta: 5 * time.Minute,
		EnableAtModifier: true, EnableNegativeOffset: true, NoStepSubqueryIntervalFn: func(int64) int64 { return 60000 }})
	pool := &sync.Pool{New: func() any { b := make([]byte, 0, 256); return &b }}
	codec := NewThanosQueryRangeCodec(true)
	shrunk := 0
	programs, shardedN := 0, 0
	for c := 0; c < n; c++ {
		if !r.Want(c) {
			continue
		}
		rng := r.Rand(c)
		data := vfc44GenData(rng)
		env := &vfc44Env{eng: eng, data: data, pool: pool, codec: codec}
		var q, src string
		if rng.Intn(10) < 4 {
			src = "promqlsmith"
			var lsets []labels.Labels
			for _, s := range data {
				lsets = append(lsets, s.lset)
			}
			ps := promqlsmith.New(rng, lsets, promqlsmith.WithEnableOffset(true), promqlsmith.WithEnableAtModifier(true),
				promqlsmith.WithAtModifierMaxTimestamp(vfc44End), promqlsmith.WithEnableVectorMatching(true), promqlsmith.WithEnabledFunctions(vfc44Funcs),
				promqlsmith.WithMaxDepth(3+rng.Intn(2)))
			q = ps.WalkRangeQuery().Pretty(0)
			if e, err := parser.ParseExpr(q); err == nil {
				q = e.String()
			}
		} else {
			src = "grammar"
			g := &vfc44Gen{rng: rng}
			q = g.program()
		}
		if _, err := parser.ParseExpr(q); err != nil {
			r.Count("programs_unparsable", 1)
			continue
		}
		programs++
		s1 := 1 + rng.Intn(5)
		s2 := 1 + (s1+rng.Intn(4))%5
		dataSig := fmt.Sprintf("%d/%x", len(data), vfc44StrHash(data[0].lset.String()+data[len(data)-1].lset.String()))
		for _, shards := range []int{s1, s2} {
			wit := map[string]any{"program": q, "source": src, "shards": shards, "series": len(data)}
			r.Guard(c, "sharding-middleware", wit, func() {
				o := env.run(q, shards)
				switch {
				case o.rejected != "":
					r.Count("rejected_by_engine", 1)
					return
				case !o.sharded:
					r.Count("not_sharded_by_analyzer", 1)
					return
				}
				r.Eval(1)
				r.Count("sharded_evaluations", 1)
				if shards == s1 {
					shardedN++
				}
				if o.infos[0].By {
					r.Count("shard_by", 1)
				} else {
					r.Count("shard_without", 1)
				}
				want, _, _ := env.eval(context.Background(), q, vfc44Start, vfc44End, vfc44Step, nil)
				nonEmpty := 0
				for _, m := range want {
					if len(m) > 0 {
						nonEmpty++
					}
				}
				if nonEmpty > 0 {
					r.Distinct(fmt.Sprintf("%s|%s|%d", q, dataSig, shards))
				} else {
					r.Count("sharded_but_empty_result", 1)
				}
				r.Sample(map[string]any{"program": q, "source": src, "shards": shards, "series": len(data), "result_series": nonEmpty,
					"shard_by": o.infos[0].By, "shard_labels": o.infos[0].Labels})
				if o.symptom == "" {
					return
				}
				isResult := strings.HasPrefix(o.symptom, "result:")
				if isResult {
					// The engine itself is not deterministic for some programs (count_values emits its groups in map
					// order, so topk/bottomk over ties pick different series per evaluation). A mismatch counts only
					// if the unsharded evaluation is stable and the mismatch persists over repeated sharded runs.
					if vfc44OrderDependent(q) {
						r.Count("mismatch_discarded_order_dependent_program", 1)
						return
					}
					for k := 0; k < 4; k++ {
						again, _, err := env.eval(context.Background(), q, vfc44Start, vfc44End, vfc44Step, nil)
						if err != nil {
							r.Count("mismatch_discarded_nondeterministic_engine", 1)
							return
						}
						if sym, _ := vfc44Diff(o.want, again); sym != "" {
							r.Count("mismatch_discarded_nondeterministic_engine", 1)
							return
						}
						if o2 := env.run(q, shards); o2.symptom != o.symptom {
							r.Count("mismatch_discarded_not_reproducible", 1)
							return
						}
					}
				}
				min := q
				fp := o.symptom
				if isResult {
					mode := map[bool]string{true: "by", false: "without"}[o.infos[0].By]
					// Root causes that are visible as evidence get their own, shape-independent fingerprint; anything
					// else is fingerprinted by symptom and by the shape of the minimised program.
					cvLabel := vfc44CountValuesLabel(q, o.infos[0], data)
					histFn := vfc44ClassicHistFunc(q)
					lePair := ""
					if histFn != "" {
						lePair = vfc44SplitIgnoring(data, o.infos, pool, "le")
					}
					namePair := ""
					if !o.infos[0].By && vfc44SelectorClass(q) == "a selector does not pin the metric name" {
						namePair = vfc44NameSplit(data, o.infos, pool)
					}
					switch {
					case cvLabel != "":
						// count_values overwrites a label the series were distributed by: its groups span shards
						fp = "result:count_values-writes-a-label-the-shards-are-split-on | shard " + mode
						o.what += "; count_values writes label " + cvLabel
					case lePair != "":
						fp = "result:buckets-of-one-classic-histogram-are-in-different-shards | shard " + mode + " | " + histFn
						o.what += "; " + lePair
					case namePair != "":
						// aggregation/matching "without" ignores the metric name, the shard hash does not
						fp = "result:series-differing-only-in-metric-name-are-in-different-shards | shard without | a selector does not pin the metric name"
						o.what += "; " + namePair
						if lbl := vfc44SplitOutput(o.perShard); lbl != "" {
							o.what += "; output series " + lbl + " is produced by several shards"
						}
					default:
						if shrunk < 60 {
							shrunk++
							min = env.shrink(q, shards, o.symptom, 80)
						}
						fp += " | shard " + mode + " | " + vfc44Shape(min)
					}
				}
				if isResult && min == q && shrunk < 60 {
					shrunk++
					min = env.shrink(q, shards, o.symptom, 80)
				}
				var series []string
				for _, s := range data {
					series = append(series, s.lset.String())
				}
				mo := env.run(min, shards)
				r.Violation(c, fp, fmt.Sprintf("%s [program %q, %d shards, shard %s %v]", o.what, q, shards, map[bool]string{true: "by", false: "without"}[o.infos[0].By], o.infos[0].Labels),
					map[string]any{"program": q, "source": src, "shards": shards, "minimised_program": min, "minimised_program_shape": vfc44Shape(min), "minimised_what": mo.what, "series": series,
						"range": []int64{vfc44Start, vfc44End, vfc44Step}, "shard_by": o.infos[0].By, "shard_labels": o.infos[0].Labels})
			})
		}
	}
	r.Extra("programs", programs)
	r.Extra("programs_sharded", shardedN)
	if !r.Replaying() && programs > 0 && shardedN*5 < programs {
		r.Inconclusive(fmt.Sprintf("only %d of %d programs were sharded by the analyzer (< 20%%)", shardedN, programs))
	}
}
