//go:build verif

package shipper

// C35 — the shipper uploads every eligible block completely, at least once.
//
// The real Shipper.Sync runs on a directory of real TSDB blocks against a fault bucket (vfc35Bucket,
// a copy of the C28 fault bucket with an additional "freeze" mode that gives real crash semantics
// inside one process: the goroutines of the crashed Sync are parked inside bucket operation k, so no
// defer, no cleanup and no later statement of that Sync ever runs before the restarted shipper is
// done). After every Sync and every crash the oracle reads the local directory, thanos.shipper.json
// and the underlying in-memory bucket directly.

import (
	"bytes"
	"context"
	"encoding/json"
	"fmt"
	"io"
	"math/rand"
	"os"
	"path"
	"path/filepath"
	"sort"
	"strconv"
	"strings"
	"sync"
	"testing"
	"time"

	"github.com/go-kit/log"
	"github.com/oklog/ulid/v2"
	"github.com/pkg/errors"
	"github.com/prometheus/common/promslog"
	"github.com/prometheus/prometheus/model/labels"
	"github.com/prometheus/prometheus/tsdb"
	"github.com/prometheus/prometheus/tsdb/chunkenc"
	"github.com/prometheus/prometheus/tsdb/index"

	"github.com/thanos-io/objstore"

	"github.com/thanos-io/thanos/pkg/block"
	"github.com/thanos-io/thanos/pkg/block/metadata"
	"github.com/thanos-io/thanos/pkg/verifhook/vfkit"
)

// ---------------------------------------------------------------------------------------------
// fault bucket (per-package copy, see harness/pkg/replicate/vf_c28_test.go)

var vfc35ErrInjected = errors.New("vf: injected bucket fault")

type vfc35Op struct {
	Seq     int    `json:"seq"`
	Kind    string `json:"kind"`
	Mut     bool   `json:"mutating"`
	Name    string `json:"name"`
	Class   string `json:"class"`
	Outcome string `json:"outcome"` // ok | err | fault-lost | fault-applied | stopped | frozen | ctx
}

type vfc35Fault struct {
	At      int  `json:"at"`                   // operation number within the Sync the fault is armed for (1-based, all operations)
	Stop    bool `json:"fail_stop"`            // this and every later operation fails
	Applied bool `json:"applied_but_no_reply"` // a faulted mutation takes effect, the caller sees an error
	Freeze  bool `json:"crash"`                // this and every later operation never returns (process killed at this point)
}

func (f vfc35Fault) mode() string {
	switch {
	case f.At == 0:
		return "none"
	case f.Freeze:
		return "crash"
	}
	m := "fail-once"
	if f.Stop {
		m = "fail-stop"
	}
	if f.Applied {
		return m + "/applied"
	}
	return m + "/lost"
}

func vfc35Class(name string) string {
	base := path.Base(name)
	switch {
	case strings.HasSuffix(name, "/"):
		return "dir-marker"
	case base == block.MetaFilename:
		return "meta.json"
	case base == block.IndexFilename:
		return "index"
	case strings.Contains(name, "/"+block.ChunksDirname+"/"):
		return "chunks"
	}
	return "other"
}

// vfc35Bucket is one "connection" of one shipper process to the shared in-memory bucket.
type vfc35Bucket struct {
	inner *objstore.InMemBucket

	mu       sync.Mutex
	cond     *sync.Cond
	seq      int
	ops      []vfc35Op
	fault    vfc35Fault
	stopped  bool
	frozen   bool
	parked   int
	active   int // mutations being applied
	done     bool
	timedOut bool
	injected *vfc35Op
	release  chan struct{}

	applyMu sync.Mutex
	onMut   func(op vfc35Op)
}

func vfc35NewBucket(inner *objstore.InMemBucket) *vfc35Bucket {
	b := &vfc35Bucket{inner: inner, release: make(chan struct{})}
	b.cond = sync.NewCond(&b.mu)
	return b
}

const (
	vfc35Pass = iota
	vfc35Lost
	vfc35ApplyThenFail
	vfc35Ctx
	vfc35Park
)

func (b *vfc35Bucket) begin(ctx context.Context, kind, name string, mut bool) (*vfc35Op, int) {
	b.mu.Lock()
	defer b.mu.Unlock()
	b.seq++
	op := &vfc35Op{Seq: b.seq, Kind: kind, Mut: mut, Name: name, Class: vfc35Class(name), Outcome: "ok"}
	if kind == "iter" {
		op.Class = "listing"
	}
	act := vfc35Pass
	switch {
	case b.stopped:
		op.Outcome, act = "stopped", vfc35Lost
	case b.frozen:
		op.Outcome, act = "frozen", vfc35Park
	case b.fault.At != 0 && b.fault.At == b.seq:
		switch {
		case b.fault.Freeze:
			b.frozen = true
			op.Outcome, act = "frozen", vfc35Park
		case mut && b.fault.Applied:
			op.Outcome, act = "fault-applied", vfc35ApplyThenFail
		default:
			op.Outcome, act = "fault-lost", vfc35Lost
		}
		if b.fault.Stop {
			b.stopped = true
		}
		b.injected = op
	case ctx.Err() != nil:
		op.Outcome, act = "ctx", vfc35Ctx
	}
	if act == vfc35Park {
		b.parked++
		b.cond.Broadcast()
	}
	if mut && (act == vfc35Pass || act == vfc35ApplyThenFail) {
		b.active++
	}
	b.ops = append(b.ops, *op)
	return op, act
}

func (b *vfc35Bucket) park() error {
	<-b.release
	return vfc35ErrInjected
}

// arm prepares the bucket for the next Sync: operations are numbered from 1 again.
func (b *vfc35Bucket) arm(f vfc35Fault) {
	b.mu.Lock()
	b.seq, b.ops, b.fault, b.stopped, b.done, b.injected = 0, nil, f, false, false, nil
	b.mu.Unlock()
}

func (b *vfc35Bucket) markDone() {
	b.mu.Lock()
	b.done = true
	b.cond.Broadcast()
	b.mu.Unlock()
}

// waitDoneOrCrashed returns true if the Sync was frozen by a crash fault (all its mutations in flight have landed).
func (b *vfc35Bucket) waitDoneOrCrashed() (crashed, timedOut bool) {
	tm := time.AfterFunc(5*time.Minute, func() {
		b.mu.Lock()
		b.timedOut = true
		b.cond.Broadcast()
		b.mu.Unlock()
	})
	defer tm.Stop()
	b.mu.Lock()
	defer b.mu.Unlock()
	for !(b.done || b.timedOut || (b.frozen && b.parked > 0 && b.active == 0)) {
		b.cond.Wait()
	}
	return !b.done && !b.timedOut, b.timedOut && !b.done
}

// kill lets the parked goroutines of a crashed process go (they all see errors from now on).
func (b *vfc35Bucket) kill() {
	b.mu.Lock()
	b.stopped = true
	b.frozen = false
	b.mu.Unlock()
	close(b.release)
}

func (b *vfc35Bucket) opLog() []vfc35Op {
	b.mu.Lock()
	defer b.mu.Unlock()
	return append([]vfc35Op(nil), b.ops...)
}

func (b *vfc35Bucket) injectedOp() *vfc35Op {
	b.mu.Lock()
	defer b.mu.Unlock()
	if b.injected == nil {
		return nil
	}
	o := *b.injected
	return &o
}

func (b *vfc35Bucket) read(ctx context.Context, kind, name string) error {
	_, act := b.begin(ctx, kind, name, false)
	switch act {
	case vfc35Lost:
		return vfc35ErrInjected
	case vfc35Ctx:
		return ctx.Err()
	case vfc35Park:
		return b.park()
	}
	return nil
}

func (b *vfc35Bucket) mutate(ctx context.Context, kind, name string, apply func() error) error {
	op, act := b.begin(ctx, kind, name, true)
	switch act {
	case vfc35Lost:
		return vfc35ErrInjected
	case vfc35Ctx:
		return ctx.Err()
	case vfc35Park:
		return b.park()
	}
	b.applyMu.Lock()
	err := apply()
	if err == nil && b.onMut != nil {
		b.onMut(*op)
	}
	b.applyMu.Unlock()
	b.mu.Lock()
	b.active--
	if err != nil && op.Outcome == "ok" {
		b.ops[op.Seq-1].Outcome = "err"
	}
	b.cond.Broadcast()
	b.mu.Unlock()
	if act == vfc35ApplyThenFail {
		return vfc35ErrInjected
	}
	return err
}

func (b *vfc35Bucket) Provider() objstore.ObjProvider   { return b.inner.Provider() }
func (b *vfc35Bucket) Name() string                     { return "vfc35-fault-bucket" }
func (b *vfc35Bucket) Close() error                     { return nil }
func (b *vfc35Bucket) IsObjNotFoundErr(err error) bool  { return b.inner.IsObjNotFoundErr(err) }
func (b *vfc35Bucket) IsAccessDeniedErr(err error) bool { return false }
func (b *vfc35Bucket) SupportedIterOptions() []objstore.IterOptionType {
	return b.inner.SupportedIterOptions()
}

func (b *vfc35Bucket) Iter(ctx context.Context, dir string, f func(string) error, o ...objstore.IterOption) error {
	if err := b.read(ctx, "iter", dir); err != nil {
		return err
	}
	return b.inner.Iter(ctx, dir, f, o...)
}

func (b *vfc35Bucket) IterWithAttributes(ctx context.Context, dir string, f func(objstore.IterObjectAttributes) error, o ...objstore.IterOption) error {
	if err := b.read(ctx, "iter", dir); err != nil {
		return err
	}
	return b.inner.IterWithAttributes(ctx, dir, f, o...)
}

func (b *vfc35Bucket) Get(ctx context.Context, name string) (io.ReadCloser, error) {
	if err := b.read(ctx, "get", name); err != nil {
		return nil, err
	}
	return b.inner.Get(ctx, name)
}

func (b *vfc35Bucket) GetRange(ctx context.Context, name string, off, length int64) (io.ReadCloser, error) {
	if err := b.read(ctx, "get_range", name); err != nil {
		return nil, err
	}
	return b.inner.GetRange(ctx, name, off, length)
}

func (b *vfc35Bucket) Exists(ctx context.Context, name string) (bool, error) {
	if err := b.read(ctx, "exists", name); err != nil {
		return false, err
	}
	return b.inner.Exists(ctx, name)
}

func (b *vfc35Bucket) Attributes(ctx context.Context, name string) (objstore.ObjectAttributes, error) {
	if err := b.read(ctx, "attributes", name); err != nil {
		return objstore.ObjectAttributes{}, err
	}
	return b.inner.Attributes(ctx, name)
}

func (b *vfc35Bucket) Upload(ctx context.Context, name string, r io.Reader, o ...objstore.ObjectUploadOption) error {
	return b.mutate(ctx, "upload", name, func() error { return b.inner.Upload(ctx, name, r, o...) })
}

func (b *vfc35Bucket) Delete(ctx context.Context, name string) error {
	return b.mutate(ctx, "delete", name, func() error { return b.inner.Delete(ctx, name) })
}

// ---------------------------------------------------------------------------------------------
// real local blocks

var vfc35Logger = log.NewNopLogger()

type vfc35Blk struct {
	ID     ulid.ULID
	Level  int
	Segs   int
	Kind   string // "data" | "empty" | "corrupted"
	Layout string // "dir": <data>/<ULID> is the directory | "symlink-inside": <data>/<ULID> -> relocated/<ULID> (relative, inside the data dir)
}

// vfc35Decoy: a directory entry named like a ULID that is not a block directory.
type vfc35Decoy struct {
	Name string `json:"name"`
	Kind string `json:"kind"` // "plain-file" | "dangling-symlink" | "symlink-escaping-data-dir"
}

// vfc35BuildBlock writes a real TSDB block as Prometheus leaves it (no thanos section in meta.json) into parent.
func vfc35BuildBlock(parent string, rng *rand.Rand, wantSegs, level int, mint, maxt int64) (blk vfc35Blk, err error) {
	ctx := context.Background()
	headOpts := tsdb.DefaultHeadOptions()
	headOpts.ChunkDirRoot = filepath.Join(parent, "vfhead")
	headOpts.ChunkRange = 10000000000
	headOpts.StripeSize = 64 // default 16384 stripes make NewHead slow under -race; irrelevant for the block written
	h, err := tsdb.NewHead(nil, nil, nil, nil, headOpts, nil)
	if err != nil {
		return blk, errors.Wrap(err, "head")
	}
	defer func() {
		if cerr := h.Close(); cerr != nil && err == nil {
			err = cerr
		}
		_ = os.RemoveAll(headOpts.ChunkDirRoot)
	}()
	// all series have the same number (<= 110: one chunk) of random float samples; the size of one series is
	// computed with the same XOR encoder and the segment size chosen so that perSeg series fit into one file.
	perSeg := 2 + rng.Intn(2)
	nSeries := wantSegs * perSeg
	nSamples := 30 + rng.Intn(80)
	step := (maxt - mint) / int64(nSamples+1)
	var oneSeries int64
	app := h.Appender(ctx)
	for s := 0; s < nSeries; s++ {
		lset := labels.FromStrings("__name__", "vf_metric", "series", strconv.Itoa(s))
		xc := chunkenc.NewXORChunk()
		xa, err := xc.Appender()
		if err != nil {
			return blk, err
		}
		for i := 0; i < nSamples; i++ {
			v := rng.Float64()
			if _, err := app.Append(0, lset, mint+int64(i)*step, v); err != nil {
				_ = app.Rollback()
				return blk, errors.Wrap(err, "append")
			}
			xa.Append(mint+int64(i)*step, v)
		}
		if n := int64(len(xc.Bytes())) + 10; n > oneSeries {
			oneSeries = n
		}
	}
	if err := app.Commit(); err != nil {
		return blk, errors.Wrap(err, "commit")
	}
	write := func(seg int64) (ulid.ULID, []os.DirEntry, error) {
		c, err := tsdb.NewLeveledCompactorWithOptions(ctx, nil, promslog.NewNopLogger(), []int64{maxt - mint}, nil,
			tsdb.LeveledCompactorOptions{MaxBlockChunkSegmentSize: seg, EnableOverlappingCompaction: true})
		if err != nil {
			return ulid.ULID{}, nil, err
		}
		ids, err := c.Write(parent, h, mint, maxt, nil)
		if err != nil {
			return ulid.ULID{}, nil, err
		}
		if len(ids) != 1 {
			return ulid.ULID{}, nil, errors.Errorf("compactor wrote %d blocks", len(ids))
		}
		des, err := os.ReadDir(filepath.Join(parent, ids[0].String(), block.ChunksDirname))
		return ids[0], des, err
	}
	seg := 8 + int64(perSeg)*oneSeries + oneSeries/2
	if wantSegs == 1 {
		seg = 8 + int64(nSeries+2)*oneSeries + 4096
	}
	id, des, err := write(seg)
	if err != nil {
		return blk, errors.Wrap(err, "write block")
	}
	for try := 0; try < 3 && (len(des) < 1 || len(des) > 3); try++ {
		_ = os.RemoveAll(filepath.Join(parent, id.String()))
		seg += oneSeries
		if id, des, err = write(seg); err != nil {
			return blk, errors.Wrap(err, "write block")
		}
	}
	if len(des) < 1 || len(des) > 3 {
		return blk, errors.Errorf("could not get 1..3 segment files (got %d)", len(des))
	}
	blk = vfc35Blk{ID: id, Level: level, Segs: len(des), Kind: "data"}
	if level > 1 {
		dir := filepath.Join(parent, id.String())
		m, err := metadata.ReadFromDir(dir)
		if err != nil {
			return blk, errors.Wrap(err, "read meta")
		}
		m.Compaction.Level = level
		m.Compaction.Sources = nil
		for i := 0; i < level; i++ {
			m.Compaction.Sources = append(m.Compaction.Sources, ulid.MustNew(uint64(mint)+uint64(i), rng))
		}
		b, err := json.MarshalIndent(&m.BlockMeta, "", "\t") // still a plain Prometheus meta.json
		if err != nil {
			return blk, err
		}
		if err := os.WriteFile(filepath.Join(dir, block.MetaFilename), b, 0o644); err != nil {
			return blk, err
		}
	}
	return blk, nil
}

// vfc35BuildEmptyBlock: a block without samples (as Prometheus < 2.7 could leave behind).
func vfc35BuildEmptyBlock(parent string, rng *rand.Rand, mint, maxt int64) (vfc35Blk, error) {
	id := ulid.MustNew(uint64(maxt), rng)
	dir := filepath.Join(parent, id.String())
	if err := os.MkdirAll(filepath.Join(dir, block.ChunksDirname), 0o750); err != nil {
		return vfc35Blk{}, err
	}
	w, err := index.NewWriter(context.Background(), filepath.Join(dir, block.IndexFilename))
	if err != nil {
		return vfc35Blk{}, err
	}
	if err := w.Close(); err != nil {
		return vfc35Blk{}, err
	}
	m := tsdb.BlockMeta{Version: 1, ULID: id, MinTime: mint, MaxTime: maxt, Compaction: tsdb.BlockMetaCompaction{Level: 1, Sources: []ulid.ULID{id}}}
	b, err := json.Marshal(&m)
	if err != nil {
		return vfc35Blk{}, err
	}
	return vfc35Blk{ID: id, Level: 1, Kind: "empty"}, os.WriteFile(filepath.Join(dir, block.MetaFilename), b, 0o644)
}

// ---------------------------------------------------------------------------------------------
// oracle documents (own JSON reading)

type vfc35LocalMeta struct {
	ULID  string `json:"ulid"`
	Stats struct {
		NumSamples uint64 `json:"numSamples"`
	} `json:"stats"`
	Compaction struct {
		Level int `json:"level"`
	} `json:"compaction"`
}

type vfc35BucketMeta struct {
	ULID   string `json:"ulid"`
	Thanos struct {
		Labels map[string]string `json:"labels"`
		Files  []struct {
			RelPath   string `json:"rel_path"`
			SizeBytes int64  `json:"size_bytes"`
		} `json:"files"`
	} `json:"thanos"`
}

type vfc35ShipperFile struct {
	Version  int      `json:"version"`
	Uploaded []string `json:"uploaded"`
}

func vfc35LabelString(m map[string]string) string {
	ks := make([]string, 0, len(m))
	for k := range m {
		ks = append(ks, k)
	}
	sort.Strings(ks)
	var sb strings.Builder
	for _, k := range ks {
		fmt.Fprintf(&sb, "%s=%q,", k, m[k])
	}
	return sb.String()
}

// ---------------------------------------------------------------------------------------------
// one shipper directory + bucket + history

type vfc35Cfg struct {
	UploadCompacted bool   `json:"upload_compacted"`
	AllowOOO        bool   `json:"allow_out_of_order_uploads"`
	SkipCorrupted   bool   `json:"skip_corrupted_blocks"`
	Concurrency     int    `json:"upload_concurrency"`
	Hash            string `json:"hash_func"`
}

type vfc35Step struct {
	Appear []int             `json:"blocks_appearing"` // indices into blocks
	Labels map[string]string `json:"external_labels"`
}

type vfc35Case struct {
	r       *vfkit.Run
	t       *testing.T
	c       int
	cfg     vfc35Cfg
	blocks  []vfc35Blk
	steps   []vfc35Step
	tsdb    string
	stage   string
	decoys  []vfc35Decoy
	outside string // a directory outside the data dir (target of escaping symlinks)

	// state of one history replay
	inner      *objstore.InMemBucket
	lmu        sync.Mutex
	curLabels  map[string]string
	metaLabels map[string]string // block id -> labels of the shipper when <id>/meta.json was (last) uploaded
	zombies    []*vfc35Proc
	trace      []string
	fired      map[string]bool
	eligibleOK int
}

// vfc35Snap is the durable state after a step of the fault-free history: replays of a later step start from it.
type vfc35Snap struct {
	shipperFile []byte // nil: no thanos.shipper.json
	objs        map[string][]byte
	metaLabels  map[string]string
}

func (cs *vfc35Case) snapshot() vfc35Snap {
	sn := vfc35Snap{objs: cs.inner.Objects(), metaLabels: map[string]string{}}
	if raw, err := os.ReadFile(filepath.Join(cs.tsdb, DefaultMetaFilename)); err == nil {
		sn.shipperFile = raw
	}
	cs.lmu.Lock()
	for k, v := range cs.metaLabels {
		sn.metaLabels[k] = v
	}
	cs.lmu.Unlock()
	return sn
}

// restore re-creates directory, shipper file and bucket as they were after step upTo-1 of the fault-free history.
func (cs *vfc35Case) restore(upTo int, sn vfc35Snap) {
	for si := 0; si < upTo; si++ {
		cs.applyStep(cs.steps[si])
	}
	if sn.shipperFile != nil {
		if err := os.WriteFile(filepath.Join(cs.tsdb, DefaultMetaFilename), sn.shipperFile, 0o644); err != nil {
			cs.fatal("%v", err)
		}
	}
	for k, v := range sn.objs {
		if err := cs.inner.Upload(context.Background(), k, bytes.NewReader(v)); err != nil {
			cs.fatal("%v", err)
		}
	}
	cs.lmu.Lock()
	for k, v := range sn.metaLabels {
		cs.metaLabels[k] = v
	}
	cs.lmu.Unlock()
	cs.note("state after step %d of the fault-free history restored (%d bucket objects, shipper file present=%v)", upTo-1, len(sn.objs), sn.shipperFile != nil)
}

// vfc35LocalState: what a process killed BETWEEN LOCAL FILE-SYSTEM STEPS of Shipper.upload leaves in the staging
// directory thanos/upload/<block>: any subset of the block's files (= every prefix of every possible linking order),
// no staging directory at all, a staging directory without chunks/, or everything plus a half-written meta.json.tmp.
type vfc35LocalState struct {
	Block string   `json:"block"`
	Files []string `json:"files_present_in_staging_dir"`
	Extra string   `json:"extra,omitempty"` // "" | "no-staging-dir" | "no-chunks-subdir" | "meta.json.tmp-half-written"
}

func (l vfc35LocalState) String() string {
	if l.Extra != "" {
		return fmt.Sprintf("{%s}+%s", strings.Join(l.Files, ","), l.Extra)
	}
	return "{" + strings.Join(l.Files, ",") + "}"
}

// applyLocalState rewrites thanos/upload/<block> to the given state (hard links to the block's own files, as
// hardlinkBlock makes them).
func (cs *vfc35Case) applyLocalState(l vfc35LocalState) {
	up := filepath.Join(cs.tsdb, "thanos", "upload", l.Block)
	if err := os.RemoveAll(up); err != nil {
		cs.fatal("%v", err)
	}
	if l.Extra == "no-staging-dir" {
		return
	}
	dir := up
	if l.Extra != "no-chunks-subdir" {
		dir = filepath.Join(up, block.ChunksDirname)
	}
	if err := os.MkdirAll(dir, 0o750); err != nil {
		cs.fatal("%v", err)
	}
	for _, f := range l.Files {
		if err := os.Link(filepath.Join(cs.tsdb, l.Block, f), filepath.Join(up, f)); err != nil {
			cs.fatal("%v", err)
		}
	}
	if l.Extra == "meta.json.tmp-half-written" {
		if err := os.WriteFile(filepath.Join(up, block.MetaFilename+".tmp"), []byte("{\n\t\"ulid\": \""+l.Block[:7]), 0o644); err != nil {
			cs.fatal("%v", err)
		}
	}
}

// localFiles lists the files of a local block that Shipper.upload stages: meta.json, index, chunks/*.
func (cs *vfc35Case) localFiles(id string) []string {
	files := []string{block.MetaFilename, block.IndexFilename}
	segs, err := os.ReadDir(filepath.Join(cs.stage, id, block.ChunksDirname))
	if err != nil {
		segs, err = os.ReadDir(filepath.Join(cs.tsdb, id, block.ChunksDirname))
	}
	if err != nil {
		cs.fatal("%v", err)
	}
	for _, sg := range segs {
		files = append(files, block.ChunksDirname+"/"+sg.Name())
	}
	return files
}

type vfc35Proc struct {
	cs   *vfc35Case
	s    *Shipper
	root *os.Root
	bkt  *vfc35Bucket
	done chan struct{}
	err  error
	pan  any
}

func (cs *vfc35Case) fatal(format string, args ...any) {
	msg := "vfc35 harness set-up failed: " + fmt.Sprintf(format, args...)
	cs.r.Inconclusive(msg)
	cs.t.Fatal(msg)
}

func (cs *vfc35Case) note(format string, args ...any) {
	cs.trace = append(cs.trace, fmt.Sprintf(format, args...))
}

// reset brings directory and bucket back to the start of the history.
func (cs *vfc35Case) reset() {
	cs.reap()
	des, err := os.ReadDir(cs.tsdb)
	if err != nil {
		cs.fatal("%v", err)
	}
	for _, de := range des {
		p := filepath.Join(cs.tsdb, de.Name())
		if _, err := ulid.Parse(de.Name()); err == nil && de.IsDir() { // a real block directory (lstat: not a symlink)
			if err := os.Rename(p, filepath.Join(cs.stage, de.Name())); err != nil {
				cs.fatal("%v", err)
			}
			continue
		}
		if de.Name() == "relocated" {
			rel, err := os.ReadDir(p)
			if err != nil {
				cs.fatal("%v", err)
			}
			for _, rd := range rel {
				if err := os.Rename(filepath.Join(p, rd.Name()), filepath.Join(cs.stage, rd.Name())); err != nil {
					cs.fatal("%v", err)
				}
			}
		}
		if err := os.RemoveAll(p); err != nil { // symlinks, decoys, thanos/, thanos.shipper.json, relocated/
			cs.fatal("%v", err)
		}
	}
	for _, d := range cs.decoys {
		p := filepath.Join(cs.tsdb, d.Name)
		var err error
		switch d.Kind {
		case "plain-file":
			err = os.WriteFile(p, []byte("not a block"), 0o644)
		case "dangling-symlink":
			err = os.Symlink(filepath.Join("relocated", "gone-"+d.Name), p)
		case "symlink-escaping-data-dir":
			err = os.Symlink(cs.outside, p)
		}
		if err != nil {
			cs.fatal("%v", err)
		}
	}
	cs.inner = objstore.NewInMemBucket()
	cs.metaLabels = map[string]string{}
	cs.curLabels = nil
	cs.trace = nil
	cs.eligibleOK = 0
}

// reap releases and joins every crashed ("killed") process of this replay.
func (cs *vfc35Case) reap() {
	for _, z := range cs.zombies {
		z.bkt.kill()
		<-z.done
		_ = z.root.Close()
	}
	cs.zombies = nil
}

func (cs *vfc35Case) applyStep(s vfc35Step) {
	for _, i := range s.Appear {
		id := cs.blocks[i].ID.String()
		if cs.blocks[i].Layout == "symlink-inside" {
			// the block directory lives elsewhere inside the data dir, <data>/<ULID> is a relative symlink to it
			if err := os.MkdirAll(filepath.Join(cs.tsdb, "relocated"), 0o750); err != nil {
				cs.fatal("%v", err)
			}
			if err := os.Rename(filepath.Join(cs.stage, id), filepath.Join(cs.tsdb, "relocated", id)); err != nil {
				cs.fatal("%v", err)
			}
			if err := os.Symlink(filepath.Join("relocated", id), filepath.Join(cs.tsdb, id)); err != nil {
				cs.fatal("%v", err)
			}
			continue
		}
		if err := os.Rename(filepath.Join(cs.stage, id), filepath.Join(cs.tsdb, id)); err != nil {
			cs.fatal("%v", err)
		}
	}
	cs.lmu.Lock()
	cs.curLabels = s.Labels
	cs.lmu.Unlock()
}

func (cs *vfc35Case) labelsNow() map[string]string {
	cs.lmu.Lock()
	defer cs.lmu.Unlock()
	return cs.curLabels
}

// newProc starts a new shipper "process" on the directory and the shared bucket.
func (cs *vfc35Case) newProc() *vfc35Proc {
	root, err := os.OpenRoot(cs.tsdb)
	if err != nil {
		cs.fatal("%v", err)
	}
	p := &vfc35Proc{cs: cs, root: root, bkt: vfc35NewBucket(cs.inner)}
	p.bkt.onMut = func(op vfc35Op) {
		if op.Kind == "upload" && op.Class == "meta.json" {
			id := op.Name[:strings.IndexByte(op.Name, '/')]
			cs.lmu.Lock()
			cs.metaLabels[id] = vfc35LabelString(cs.curLabels)
			cs.lmu.Unlock()
		}
	}
	hf := metadata.NoneFunc
	if cs.cfg.Hash == string(metadata.SHA256Func) {
		hf = metadata.SHA256Func
	}
	p.s = New(p.bkt, root,
		WithSource(metadata.TestSource),
		WithHashFunc(hf),
		WithLabels(func() labels.Labels { return labels.FromMap(cs.labelsNow()) }),
		WithUploadCompacted(cs.cfg.UploadCompacted),
		WithAllowOutOfOrderUploads(cs.cfg.AllowOOO),
		WithSkipCorruptedBlocks(cs.cfg.SkipCorrupted),
		WithUploadConcurrency(cs.cfg.Concurrency))
	return p
}

// sync runs one Shipper.Sync with fault f armed. crashed == the process was killed inside the Sync.
func (p *vfc35Proc) sync(f vfc35Fault) (err error, crashed bool) {
	p.bkt.arm(f)
	p.done = make(chan struct{})
	p.err, p.pan = nil, nil
	go func() {
		defer close(p.done)
		defer p.bkt.markDone()
		defer func() {
			if x := recover(); x != nil {
				p.pan = x
			}
		}()
		_, p.err = p.s.Sync(context.Background())
	}()
	crashed, timedOut := p.bkt.waitDoneOrCrashed()
	if timedOut {
		p.cs.r.Inconclusive("a Shipper.Sync did not return within 5 minutes")
		p.cs.zombies = append(p.cs.zombies, p)
		return errors.New("vf: timed out"), true
	}
	if crashed {
		p.cs.zombies = append(p.cs.zombies, p)
		return nil, true
	}
	<-p.done
	if p.pan != nil {
		p.cs.violation("panic:Shipper.Sync", fmt.Sprintf("Shipper.Sync panicked: %v", p.pan), nil)
		return errors.Errorf("panic: %v", p.pan), false
	}
	return p.err, false
}

func (p *vfc35Proc) close() {
	_ = p.root.Close()
}

func (cs *vfc35Case) violation(fp, what string, extra map[string]any) {
	if cs.fired[fp] {
		return
	}
	cs.fired[fp] = true
	objs := cs.inner.Objects()
	listing := map[string]int{}
	for k, v := range objs {
		listing[k] = len(v)
	}
	var local []string
	_ = filepath.Walk(cs.tsdb, func(p string, info os.FileInfo, err error) error {
		if err == nil && !info.IsDir() {
			rel, _ := filepath.Rel(cs.tsdb, p)
			local = append(local, fmt.Sprintf("%s (%d)", rel, info.Size()))
		}
		return nil
	})
	w := map[string]any{"config": cs.cfg, "blocks": cs.blocks, "decoy_entries": cs.decoys, "steps": cs.steps, "history": append([]string(nil), cs.trace...),
		"bucket": listing, "local_dir": local}
	for k, v := range extra {
		w[k] = v
	}
	cs.r.Violation(cs.c, fp, what, w)
}

// checkRecorded is the safety clause: thanos.shipper.json never lists a block that is not complete in the bucket.
func (cs *vfc35Case) checkRecorded(when string) {
	cs.r.Eval(1)
	raw, err := os.ReadFile(filepath.Join(cs.tsdb, DefaultMetaFilename))
	if err != nil {
		return // no file: nothing recorded
	}
	var sf vfc35ShipperFile
	if err := json.Unmarshal(raw, &sf); err != nil {
		return // unreadable: the shipper treats it as empty
	}
	objs := cs.inner.Objects()
	for _, id := range sf.Uploaded {
		mraw, ok := objs[id+"/"+block.MetaFilename]
		if !ok {
			cs.violation("shipper-file:records-block-whose-meta.json-is-not-in-the-bucket",
				fmt.Sprintf("%s: thanos.shipper.json lists %s as uploaded but %s/meta.json is not in the bucket", when, id, id), map[string]any{"when": when, "block": id, "shipper_file": sf})
			return
		}
		if miss := vfc35Incomplete(objs, id, mraw); miss != "" {
			cs.violation("shipper-file:records-incomplete-block",
				fmt.Sprintf("%s: thanos.shipper.json lists %s as uploaded but %s", when, id, miss), map[string]any{"when": when, "block": id, "shipper_file": sf})
			return
		}
	}
}

// vfc35Incomplete: "" if every file the bucket meta.json lists is present with its recorded size.
func vfc35Incomplete(objs map[string][]byte, id string, mraw []byte) string {
	var bm vfc35BucketMeta
	if err := json.Unmarshal(mraw, &bm); err != nil {
		return "its meta.json in the bucket is not valid JSON"
	}
	for _, f := range bm.Thanos.Files {
		if f.RelPath == "" || f.RelPath == block.MetaFilename {
			continue
		}
		name := id + "/" + filepath.ToSlash(f.RelPath)
		got, ok := objs[name]
		if !ok {
			return fmt.Sprintf("%s (listed in its meta.json, %d bytes) is not in the bucket", name, f.SizeBytes)
		}
		if int64(len(got)) != f.SizeBytes {
			return fmt.Sprintf("%s has %d bytes in the bucket, its meta.json records %d", name, len(got), f.SizeBytes)
		}
	}
	return ""
}

// checkAfterSuccess is the first clause: after a Sync that returned nil every eligible local block is in the
// bucket with all its files and the external labels that were current when it was uploaded.
func (cs *vfc35Case) checkAfterSuccess(when string) {
	cs.r.Eval(1)
	objs := cs.inner.Objects()
	des, err := os.ReadDir(cs.tsdb)
	if err != nil {
		cs.fatal("%v", err)
	}
	for _, de := range des {
		if _, err := ulid.Parse(de.Name()); err != nil {
			continue
		}
		id := de.Name()
		dir := filepath.Join(cs.tsdb, id)
		// a block is what the name resolves to (Stat semantics, as Shipper.blockMetasFromOldest decides it):
		// a directory, possibly reached through a symlink
		if fi, err := os.Stat(dir); err != nil || !fi.IsDir() {
			continue
		}
		raw, err := os.ReadFile(filepath.Join(dir, block.MetaFilename))
		if err != nil {
			continue // corrupted local block: not eligible
		}
		var lm vfc35LocalMeta
		if err := json.Unmarshal(raw, &lm); err != nil {
			continue
		}
		if lm.Stats.NumSamples == 0 {
			continue
		}
		if lm.Compaction.Level > 1 && !cs.cfg.UploadCompacted {
			continue
		}
		lvl := "level=1"
		if lm.Compaction.Level > 1 {
			lvl = "level>1"
		}
		ex := map[string]any{"when": when, "block": id}
		mraw, ok := objs[id+"/"+block.MetaFilename]
		if !ok {
			cs.violation("sync-returned-nil:eligible-block-not-in-bucket:"+lvl,
				fmt.Sprintf("%s: Sync returned nil but eligible local block %s (%s, %d samples) has no meta.json in the bucket", when, id, lvl, lm.Stats.NumSamples), ex)
			return
		}
		if miss := vfc35Incomplete(objs, id, mraw); miss != "" {
			cs.violation("sync-returned-nil:block-incomplete-wrt-its-meta.json", fmt.Sprintf("%s: Sync returned nil but for eligible block %s: %s", when, id, miss), ex)
			return
		}
		// all its files: index and every local chunk segment, byte for byte
		files := []string{block.IndexFilename}
		segs, err := os.ReadDir(filepath.Join(dir, block.ChunksDirname))
		if err != nil {
			cs.fatal("%v", err)
		}
		for _, s := range segs {
			files = append(files, block.ChunksDirname+"/"+s.Name())
		}
		for _, f := range files {
			want, err := os.ReadFile(filepath.Join(dir, f))
			if err != nil {
				cs.fatal("%v", err)
			}
			got, ok := objs[id+"/"+f]
			if !ok {
				cs.violation("sync-returned-nil:local-file-not-in-bucket:"+vfc35Class(id+"/"+f), fmt.Sprintf("%s: Sync returned nil but %s/%s of eligible block is not in the bucket", when, id, f), ex)
				return
			}
			if !bytes.Equal(got, want) {
				cs.violation("sync-returned-nil:bucket-file-differs-from-local:"+vfc35Class(id+"/"+f), fmt.Sprintf("%s: %s/%s in the bucket (%d bytes) differs from the local file (%d bytes)", when, id, f, len(got), len(want)), ex)
				return
			}
		}
		var bm vfc35BucketMeta
		_ = json.Unmarshal(mraw, &bm)
		cs.lmu.Lock()
		wantL, known := cs.metaLabels[id]
		cs.lmu.Unlock()
		if !known {
			cs.fatal("meta.json of %s is in the bucket but its upload was never observed", id)
		}
		if gotL := vfc35LabelString(bm.Thanos.Labels); gotL != wantL {
			ex["labels_in_bucket"] = bm.Thanos.Labels
			ex["labels_current_at_upload"] = wantL
			cs.violation("sync-returned-nil:external-labels-not-those-current-at-upload", fmt.Sprintf("%s: block %s carries labels {%s}, the shipper's labels when its meta.json was uploaded were {%s}", when, id, gotL, wantL), ex)
			return
		}
		cs.eligibleOK++
	}
}

// runHistory replays the history; at step faultStep (0-based; -1 = none) the Sync runs with fault f.
// Returns the operation log of every first Sync per step (fault-free replay only) for the enumeration.
func (cs *vfc35Case) runHistory(faultStep int, f vfc35Fault, secondCrash *vfc35Fault, snaps []vfc35Snap, continueAfter bool, local *vfc35LocalState) (opsPerStep [][]vfc35Op, newSnaps []vfc35Snap, injected *vfc35Op, succeededAfterFault bool) {
	cs.reset()
	defer cs.reap()
	first := 0
	if faultStep > 0 {
		first = faultStep
		cs.restore(faultStep, snaps[faultStep-1])
	}
	proc := cs.newProc()
	defer func() { proc.close() }()
	succeededAfterFault = true
	for si, st := range cs.steps {
		if si < first {
			continue
		}
		if faultStep >= 0 && si > faultStep && !continueAfter {
			break
		}
		cs.applyStep(st)
		cs.note("step %d: blocks %v appear, labels {%s}", si, st.Appear, vfc35LabelString(st.Labels))
		when := fmt.Sprintf("step %d", si)
		if si != faultStep {
			err, _ := proc.sync(vfc35Fault{})
			opsPerStep = append(opsPerStep, proc.bkt.opLog())
			cs.note("%s: Sync (no fault) -> %v", when, err)
			if faultStep < 0 {
				newSnaps = append(newSnaps, cs.snapshot())
			}
			cs.checkRecorded(when + " after Sync")
			if err == nil {
				cs.checkAfterSuccess(when + " after Sync returned nil")
			} else if cs.expectSuccess() {
				cs.r.Count("fault_free_sync_failed", 1)
				cs.note("unexpected: fault-free Sync failed")
				if faultStep < 0 {
					cs.r.Inconclusive(fmt.Sprintf("case %d: a fault-free Sync failed: %v", cs.c, err))
				}
			}
			continue
		}
		err, crashed := proc.sync(f)
		injected = proc.bkt.injectedOp()
		opsPerStep = append(opsPerStep, proc.bkt.opLog())
		if injected != nil {
			cs.note("%s: Sync with fault %s at op #%d (%s %s) -> err=%v crashed=%v", when, f.mode(), f.At, injected.Kind, injected.Name, err, crashed)
		} else {
			cs.note("%s: Sync with fault %s at op #%d (not reached) -> err=%v", when, f.mode(), f.At, err)
		}
		if local != nil && crashed {
			// the kill did not happen inside the bucket operation but earlier, between local file-system steps of
			// Shipper.upload for this block: same bucket, same directory, staging directory in the given state
			cs.applyLocalState(*local)
			cs.note("%s: (local crash state) the process was killed earlier, inside Shipper.upload of %s: thanos/upload/%s holds %s", when, local.Block, local.Block, local.String())
		}
		cs.checkRecorded(when + " after faulted Sync (" + f.mode() + ")")
		if err == nil && !crashed {
			cs.checkAfterSuccess(when + " after faulted Sync returned nil (" + f.mode() + ")")
		}
		restart := crashed || f.Stop
		ok := err == nil && !crashed
		for i := 1; i <= 3 && !ok; i++ {
			if restart {
				if !crashed {
					proc.close()
				}
				proc = cs.newProc()
				cs.note("%s: shipper restarted", when)
			}
			var f2 vfc35Fault
			if secondCrash != nil && i == 1 {
				f2 = *secondCrash
			}
			err, crashed = proc.sync(f2)
			cs.note("%s: Sync #%d after the fault (fault %s) -> err=%v crashed=%v", when, i, f2.mode(), err, crashed)
			cs.checkRecorded(fmt.Sprintf("%s after restart Sync #%d", when, i))
			restart = crashed
			if err == nil && !crashed {
				ok = true
				cs.checkAfterSuccess(fmt.Sprintf("%s after Sync #%d following fault %s returned nil", when, i, f.mode()))
			}
		}
		if !ok {
			succeededAfterFault = false
			cs.note("%s: no successful Sync within 3 attempts after the fault", when)
			if crashed {
				proc = cs.newProc()
			}
		}
	}
	return opsPerStep, newSnaps, injected, succeededAfterFault
}

// vfc35LocalCrashStates: for every block that the fault-free Sync of step si uploads, the history is replayed with the
// process killed inside Shipper.upload of that block BEFORE its first bucket operation; the staging directory is left in
// every state an interrupted hardlinkBlock / meta rewrite can leave, independent of the order in which files are linked:
// every subset of {meta.json, index, chunks/*} (<= 32 subsets), plus no staging dir, no chunks/ sub-directory and a
// half-written meta.json.tmp. Then a new Shipper runs on the directory; the usual oracle applies.
func vfc35LocalCrashStates(cs *vfc35Case, rng *rand.Rand, si int, ops []vfc35Op, snaps []vfc35Snap) {
	r := cs.r
	firstUpload := map[string]int{}
	var order []string
	for _, o := range ops {
		if o.Kind != "upload" {
			continue
		}
		id := o.Name[:strings.IndexByte(o.Name, '/')]
		if _, ok := firstUpload[id]; !ok {
			firstUpload[id] = o.Seq
			order = append(order, id)
		}
	}
	for _, id := range order {
		files := cs.localFiles(id)
		var states []vfc35LocalState
		for mask := 0; mask < 1<<len(files); mask++ {
			st := vfc35LocalState{Block: id}
			for i, f := range files {
				if mask&(1<<i) != 0 {
					st.Files = append(st.Files, f)
				}
			}
			states = append(states, st)
		}
		states = append(states,
			vfc35LocalState{Block: id, Extra: "no-staging-dir"},
			vfc35LocalState{Block: id, Extra: "no-chunks-subdir"},
			vfc35LocalState{Block: id, Files: files, Extra: "meta.json.tmp-half-written"})
		for _, st := range states {
			st := st
			f := vfc35Fault{At: firstUpload[id], Freeze: true}
			_, _, inj, ok := cs.runHistory(si, f, nil, snaps, r.Thorough() || rng.Intn(3) == 0, &st)
			if r.Replaying() && os.Getenv("VERIF_TRACE") != "" {
				cs.t.Logf("history (step %d, local crash state %s):\n  %s", si, st.String(), strings.Join(cs.trace, "\n  "))
			}
			if inj == nil {
				r.Count("fault_not_reached", 1)
				continue
			}
			r.Count("histories_with_local_crash_state", 1)
			if !ok {
				if cs.expectSuccess() {
					class := "other"
					if cs.cfg.UploadCompacted && !cs.cfg.AllowOOO && cs.bucketHasPartialBlock() {
						class = "overlap-check-fails-on-partial-upload-in-bucket"
					}
					r.Count("no_nil_sync_within_3_after_fault:"+class, 1)
					if class == "other" && r.Counter("no_nil_sync_within_3_after_fault:other") <= 5 {
						r.Inconclusive(fmt.Sprintf("case %d: after a local crash state %s no Sync returned nil within 3 attempts; history: %s", cs.c, st.String(), strings.Join(cs.trace, " | ")))
					}
				}
				continue
			}
			if cs.eligibleOK > 0 {
				r.Distinct(fmt.Sprintf("%d|%d|local|%s|%s", cs.c, si, id, st.String()))
			}
		}
	}
}

// bucketHasPartialBlock: some block directory in the bucket has objects but no meta.json.
func (cs *vfc35Case) bucketHasPartialBlock() bool {
	objs := cs.inner.Objects()
	for name := range objs {
		i := strings.IndexByte(name, '/')
		if i <= 0 {
			continue
		}
		if _, err := ulid.Parse(name[:i]); err != nil {
			continue
		}
		if _, ok := objs[name[:i]+"/"+block.MetaFilename]; !ok {
			return true
		}
	}
	return false
}

// expectSuccess: with a corrupted local block Sync never returns nil by design.
func (cs *vfc35Case) expectSuccess() bool {
	for _, b := range cs.blocks {
		if b.Kind == "corrupted" {
			return false
		}
	}
	for _, d := range cs.decoys {
		// the shipper Stats every ULID-named entry through its os.Root: a dangling link and a link leaving the
		// data dir both fail there, and Sync reports an error (or a failed block) on every run
		if d.Kind != "plain-file" {
			return false
		}
	}
	return true
}

func vfc35GenCase(t *testing.T, r *vfkit.Run, c int, rng *rand.Rand, dir string) *vfc35Case {
	cs := &vfc35Case{r: r, t: t, c: c, tsdb: filepath.Join(dir, "tsdb"), stage: filepath.Join(dir, "stage"), fired: map[string]bool{}}
	for _, d := range []string{cs.tsdb, cs.stage} {
		if err := os.MkdirAll(d, 0o750); err != nil {
			cs.fatal("%v", err)
		}
	}
	cs.cfg = vfc35Cfg{
		UploadCompacted: rng.Intn(2) == 0,
		AllowOOO:        rng.Intn(2) == 0,
		SkipCorrupted:   rng.Intn(3) == 0,
		Concurrency:     vfkit.Pick(rng, []int{0, 1, 4}),
		Hash:            string(vfkit.Pick(rng, []metadata.HashFunc{metadata.NoneFunc, metadata.NoneFunc, metadata.SHA256Func})),
	}
	nb := 1 + rng.Intn(5)
	if !r.Thorough() && nb > 3 {
		nb = 1 + rng.Intn(3)
	}
	base := int64(1_600_000_000_000)
	emptyAt, corruptAt := -1, -1
	if nb >= 2 && rng.Intn(3) == 0 {
		emptyAt = rng.Intn(nb)
	}
	if cs.cfg.SkipCorrupted && nb >= 2 && rng.Intn(2) == 0 {
		corruptAt = rng.Intn(nb)
		if corruptAt == emptyAt {
			corruptAt = -1
		}
	}
	for i := 0; i < nb; i++ {
		mint, maxt := base+int64(i)*7_200_000, base+int64(i+1)*7_200_000
		switch i {
		case emptyAt:
			b, err := vfc35BuildEmptyBlock(cs.stage, rng, mint, maxt)
			if err != nil {
				cs.fatal("empty block: %v", err)
			}
			cs.blocks = append(cs.blocks, b)
		case corruptAt:
			id := ulid.MustNew(uint64(maxt), rng)
			if err := os.MkdirAll(filepath.Join(cs.stage, id.String(), block.ChunksDirname), 0o750); err != nil {
				cs.fatal("%v", err)
			}
			cs.blocks = append(cs.blocks, vfc35Blk{ID: id, Level: 1, Kind: "corrupted"})
		default:
			level := vfkit.Pick(rng, []int{1, 1, 1, 2, 3})
			b, err := vfc35BuildBlock(cs.stage, rng, 1+rng.Intn(3), level, mint, maxt)
			if err != nil {
				cs.fatal("block: %v", err)
			}
			cs.blocks = append(cs.blocks, b)
		}
	}
	// layouts: a block directory may be reached through a relative symlink inside the data dir; decoys are ULID-named
	// entries that are no block directories. NOTE: drawn from a separate stream so that the block contents of a case
	// do not depend on them.
	lrng := r.RandS("layout", c)
	for i := range cs.blocks {
		cs.blocks[i].Layout = "dir"
		if lrng.Intn(3) == 0 {
			cs.blocks[i].Layout = "symlink-inside"
		}
	}
	cs.outside = filepath.Join(dir, "outside-the-data-dir")
	if err := os.MkdirAll(cs.outside, 0o750); err != nil {
		cs.fatal("%v", err)
	}
	if lrng.Intn(3) == 0 {
		cs.decoys = append(cs.decoys, vfc35Decoy{Name: ulid.MustNew(uint64(base)-1, lrng).String(), Kind: "plain-file"})
	}
	switch lrng.Intn(10) {
	case 0:
		cs.decoys = append(cs.decoys, vfc35Decoy{Name: ulid.MustNew(uint64(base)-2, lrng).String(), Kind: "dangling-symlink"})
	case 1:
		cs.decoys = append(cs.decoys, vfc35Decoy{Name: ulid.MustNew(uint64(base)-3, lrng).String(), Kind: "symlink-escaping-data-dir"})
	}
	// history: 1..3 steps; every block appears in exactly one step; labels may change between steps
	ns := 1 + rng.Intn(3)
	if ns > nb {
		ns = nb
	}
	lbl := map[string]string{"cluster": "vf", "replica": "0"}
	cs.steps = make([]vfc35Step, ns)
	for i := range cs.steps {
		if i > 0 && rng.Intn(3) == 0 {
			lbl = map[string]string{"cluster": "vf", "replica": strconv.Itoa(i)}
			if rng.Intn(2) == 0 {
				lbl = map[string]string{"cluster": "vf2"}
			}
		}
		cs.steps[i].Labels = lbl
	}
	for i, p := range rng.Perm(nb) {
		s := rng.Intn(ns)
		if i < ns {
			s = i // every step gets a block
		}
		cs.steps[s].Appear = append(cs.steps[s].Appear, p)
	}
	for i := range cs.steps {
		sort.Ints(cs.steps[i].Appear)
	}
	return cs
}

func TestVF_C35(t *testing.T) {
	r := vfkit.Start(t, "C35")
	defer r.Finish()
	r.Rule("case = a shipper directory with 1..5 (quick tier: 1..3) real TSDB blocks (1..3 segment files; levels 1..3; possibly one block without samples and, with skip-corrupted, one directory without meta.json; a third of the block directories are reached through a relative symlink <data>/<ULID> -> relocated/<ULID>; ULID-named decoy entries: plain file, dangling symlink, symlink leaving the data dir) x options (upload-compacted, allow-out-of-order, upload concurrency 0|1|4, hash func) x a history of 1..3 steps (blocks appear, external labels may change, Sync); " +
		"the fault-free history is run first; then for EVERY step and EVERY bucket operation k of that step's Sync the history is replayed with a fault at k (crash = the Sync's goroutines are frozen inside op k and a new Shipper starts on the same directory and bucket; fail-stop lost|applied + restart; fail-once lost|applied, same Shipper - in quick only with allow-out-of-order, where Sync goes on after a failed block), plus LOCAL crash states: for every block a Sync uploads, the process is killed inside Shipper.upload before that block's first bucket operation and thanos/upload/<id> is left holding every subset of {meta.json,index,chunks/*} (= every prefix of every linking order), no staging dir, no chunks/ sub-dir, or all files plus a half-written meta.json.tmp; each followed by up to 3 Syncs and (quick: in a third of the replays; thorough: always) the rest of the history; replays of a later step start from the recorded durable state (directory, thanos.shipper.json, bucket) of the fault-free history; thorough adds a second crash inside the first restart Sync; " +
		"oracle (own JSON reading of local meta.json, thanos.shipper.json and the in-memory bucket): after EVERY Sync and crash thanos.shipper.json lists only blocks whose meta.json is in the bucket with every listed file at its recorded size; after every Sync that returned nil each local block (a ULID-named entry that RESOLVES to a directory, Stat semantics) with samples and (level 1 or upload-compacted) has meta.json, every listed file, byte-identical index and chunk segments, and exactly the external labels the shipper had when that meta.json was uploaded; " +
		"evaluation = one such check; distinct = (case, step, k, fault mode) where the fault was really injected and a later Sync returned nil with >= 1 eligible block verified")
	n := r.N(12, 120)
	r.Require(int64(n)*50, n*10)
	r.Assume("'current external labels' = the labels the shipper had when it uploaded the block's meta.json (uploaded blocks are immutable; a later label change cannot and need not reach them)")
	r.Assume("local blocks are Prometheus blocks without a thanos section; block time ranges do not overlap (otherwise the overlap check legitimately refuses compacted blocks)")
	r.Assume("crash points are bucket operations plus the enumerated states of the staging directory thanos/upload/<id>; a kill between the steps of writing thanos.shipper.json (tmp file, rename) is not enumerated")
	r.Assume("nobody else deletes from the bucket during the history (the shipper's cache of uploaded ids is by design not re-validated)")
	tmp := t.TempDir()
	for c := 0; c < n; c++ {
		if !r.Want(c) {
			continue
		}
		rng := r.Rand(c)
		dir := filepath.Join(tmp, fmt.Sprintf("c%d", c))
		t0 := time.Now()
		cs := vfc35GenCase(t, r, c, rng, dir)
		r.Count("wall_ms(informational):building-blocks", int(time.Since(t0).Milliseconds()))
		t0 = time.Now()
		r.Guard(c, "shipper-history", map[string]any{"config": cs.cfg, "blocks": cs.blocks, "decoy_entries": cs.decoys, "steps": cs.steps}, func() { vfc35RunCase(cs, rng) })
		cs.reap()
		r.Count("wall_ms(informational):histories", int(time.Since(t0).Milliseconds()))
		_ = os.RemoveAll(dir)
	}
}

func vfc35RunCase(cs *vfc35Case, rng *rand.Rand) {
	r := cs.r
	baseOps, snaps, _, _ := cs.runHistory(-1, vfc35Fault{}, nil, nil, true, nil)
	total := 0
	for _, o := range baseOps {
		total += len(o)
	}
	r.Count("histories_fault_free", 1)
	r.Count("eligible_blocks_verified_fault_free", cs.eligibleOK)
	if !cs.expectSuccess() {
		r.Count("cases_where_sync_never_returns_nil(corrupted_dir|dangling_or_escaping_symlink)", 1)
	}
	for _, b := range cs.blocks {
		r.Count("block_layout:"+b.Layout, 1)
	}
	for _, d := range cs.decoys {
		r.Count("decoy_entry:"+d.Kind, 1)
	}
	r.Sample(map[string]any{"config": cs.cfg, "blocks": cs.blocks, "decoy_entries": cs.decoys, "steps": cs.steps, "bucket_ops_in_fault_free_history": total})
	for si := range cs.steps {
		ops := baseOps[si]
		vfc35LocalCrashStates(cs, rng, si, ops, snaps)
		for k := 1; k <= len(ops); k++ {
			// without allow-out-of-order Sync returns at the first failed operation, so a transient failure takes
			// the same path as fail-stop; the fail-once modes are enumerated where Sync goes on after a failure
			// (and always in the thorough tier)
			once := cs.cfg.AllowOOO || r.Thorough()
			modes := []vfc35Fault{{At: k, Freeze: true}, {At: k, Stop: true}}
			if once {
				modes = append(modes, vfc35Fault{At: k})
			}
			if ops[k-1].Mut {
				modes = append(modes, vfc35Fault{At: k, Stop: true, Applied: true})
				if once {
					modes = append(modes, vfc35Fault{At: k, Applied: true})
				}
			}
			for _, f := range modes {
				var second *vfc35Fault
				if r.Thorough() && (f.Freeze || f.Stop) && rng.Intn(2) == 0 {
					second = &vfc35Fault{At: 1 + rng.Intn(len(ops)+2), Freeze: rng.Intn(2) == 0}
					second.Stop = !second.Freeze
				}
				_, _, inj, ok := cs.runHistory(si, f, second, snaps, r.Thorough() || rng.Intn(3) == 0, nil)
				r.Count("histories_with_fault", 1)
				if r.Replaying() && os.Getenv("VERIF_TRACE") != "" {
					cs.t.Logf("history (step %d, op %d, %s):\n  %s", si, k, f.mode(), strings.Join(cs.trace, "\n  "))
				}
				if inj == nil {
					r.Count("fault_not_reached", 1)
					continue
				}
				r.Count("fault:"+f.mode(), 1)
				r.Count("fault_on:"+inj.Kind+":"+inj.Class, 1)
				if second != nil {
					r.Count("histories_with_second_crash", 1)
				}
				if !ok {
					if cs.expectSuccess() {
						// The statement only speaks about Syncs that return nil, so this is counted, never a violation.
						// One class is known on the unchanged tree (see report): with upload-compacted and without
						// allow-out-of-order the overlap check lists the bucket and fails on the shipper's own partial
						// upload (a block directory without meta.json). Any other class means the monitor could not
						// establish the antecedent for that crash point: inconclusive.
						class := "other"
						if cs.cfg.UploadCompacted && !cs.cfg.AllowOOO && cs.bucketHasPartialBlock() {
							class = "overlap-check-fails-on-partial-upload-in-bucket"
						}
						r.Count("no_nil_sync_within_3_after_fault:"+class, 1)
						r.Count("no_nil_sync_within_3_after_fault:"+class+":"+f.mode()+":"+inj.Kind+":"+inj.Class, 1)
						if n := r.Counter("no_nil_sync_within_3_after_fault:" + class); n <= 2 {
							r.Extra(fmt.Sprintf("no_nil_sync_example:%s:%d", class, n),
								map[string]any{"config": cs.cfg, "blocks": cs.blocks, "decoy_entries": cs.decoys, "steps": cs.steps, "history": append([]string(nil), cs.trace...)})
						}
						if class == "other" && r.Counter("no_nil_sync_within_3_after_fault:other") <= 5 {
							r.Inconclusive(fmt.Sprintf("case %d: after fault %s at %s %s no Sync returned nil within 3 attempts although the bucket was healthy again; the property (which speaks about successful syncs) could not be evaluated for this crash point; history: %s",
								cs.c, f.mode(), inj.Kind, inj.Name, strings.Join(cs.trace, " | ")))
						}
					}
					continue
				}
				if cs.eligibleOK > 0 {
					r.Distinct(fmt.Sprintf("%d|%d|%d|%s", cs.c, si, k, f.mode()))
				}
			}
		}
	}
}
