//go:build verif

// Package vfkit is the shared runtime-monitoring kit of /verif. It is injected into the
// thanos module at build time (go test -overlay) as pkg/verifhook/vfkit and must not import
// any thanos package under test.
package vfkit

import (
	"encoding/json"
	"fmt"
	"hash/fnv"
	"math/rand"
	"os"
	"path/filepath"
	"runtime"
	"runtime/debug"
	"sort"
	"strconv"
	"sync"
	"sync/atomic"
	"testing"
	"time"
)

// Violation is one refuting observation.
type Violation struct {
	Fingerprint string `json:"fingerprint"`
	What        string `json:"what"`
	Replay      string `json:"replay"`
	Case        int    `json:"case"`
}

// Result is the record a monitor writes for the driver (bin/vcheck).
type Result struct {
	Property           string           `json:"property"`
	Tier               string           `json:"tier"`
	Seed               int64            `json:"seed"`
	Verdict            string           `json:"verdict"` // held | violated | inconclusive
	Evaluations        int64            `json:"evaluations"`
	DistinctNontrivial int              `json:"distinct_nontrivial"`
	Rule               string           `json:"rule"`
	Samples            []any            `json:"samples"`
	Violations         []Violation      `json:"violations"`
	ViolationCount     int              `json:"violation_count"`
	Assumptions        []string         `json:"assumptions"`
	Extra              map[string]any   `json:"extra"`
	Counters           map[string]int64 `json:"counters"`
	Inconclusive       []string         `json:"inconclusive"`
	WallS              float64          `json:"wall_s"`
	Exhaustive         bool             `json:"exhaustive"`
	Partial            bool             `json:"partial,omitempty"` // written at a violation, before the run finished
	Signatures         int              `json:"distinct_signatures,omitempty"`
}

// Run collects what one monitor execution observed.
type Run struct {
	T    testing.TB
	Prop string

	seed     int64
	tier     string
	out      string
	replayD  string
	onlyCase int // -1: all
	start    time.Time

	mu         sync.Mutex
	res        Result
	distinct   map[uint64]struct{}
	sigs       map[uint64]struct{}
	fpSeen     map[string]int
	minEval    int64
	minDist    int
	maxSamples int
	finished   bool
}

// Start opens a monitor run for property prop (e.g. "C01").
func Start(t testing.TB, prop string) *Run {
	r := &Run{T: t, Prop: prop, onlyCase: -1, start: time.Now(), maxSamples: 5, minEval: 1, minDist: 2}
	r.seed = 1
	if s := os.Getenv("VERIF_SEED"); s != "" {
		if v, err := strconv.ParseInt(s, 10, 64); err == nil {
			r.seed = v
		}
	}
	r.tier = "quick"
	if os.Getenv("VERIF_TIER") == "thorough" {
		r.tier = "thorough"
	}
	r.out = os.Getenv("VERIF_OUT")
	r.replayD = os.Getenv("VERIF_REPLAY_DIR")
	if r.replayD == "" {
		r.replayD = filepath.Join(os.TempDir(), "vf-replays", prop)
	}
	if s := os.Getenv("VERIF_CASE"); s != "" {
		if v, err := strconv.Atoi(s); err == nil {
			r.onlyCase = v
		}
	}
	r.res = Result{Property: prop, Tier: r.tier, Seed: r.seed, Extra: map[string]any{}, Counters: map[string]int64{}}
	r.distinct = map[uint64]struct{}{}
	r.sigs = map[uint64]struct{}{}
	r.fpSeen = map[string]int{}
	return r
}

func (r *Run) Seed() int64    { return r.seed }
func (r *Run) Tier() string   { return r.tier }
func (r *Run) Thorough() bool { return r.tier == "thorough" }

// N picks the case count for the tier.
func (r *Run) N(quick, thorough int) int {
	if r.Thorough() {
		return thorough
	}
	return quick
}

// Replaying reports whether only one recorded case is re-executed.
func (r *Run) Replaying() bool { return r.onlyCase >= 0 }

// Want reports whether case i is to be executed (all cases, or only the replayed one).
func (r *Run) Want(i int) bool { return r.onlyCase < 0 || r.onlyCase == i }

// Rand returns the PRNG stream of case i: a pure function of (seed, property, stream, i).
func (r *Run) Rand(i int) *rand.Rand { return r.RandS("", i) }

// RandS is Rand with a named sub-stream.
func (r *Run) RandS(stream string, i int) *rand.Rand {
	h := fnv.New64a()
	fmt.Fprintf(h, "%d|%s|%s|%d", r.seed, r.Prop, stream, i)
	return rand.New(rand.NewSource(int64(mix(h.Sum64()))))
}

func mix(x uint64) uint64 {
	x ^= x >> 33
	x *= 0xff51afd7ed558ccd
	x ^= x >> 33
	x *= 0xc4ceb9fe1a85ec53
	x ^= x >> 33
	return x
}

// Require sets the minimum observation counts below which the run is inconclusive.
func (r *Run) Require(minEvaluations int64, minDistinct int) {
	r.mu.Lock()
	defer r.mu.Unlock()
	if r.Replaying() {
		return
	}
	r.minEval, r.minDist = minEvaluations, minDistinct
	if r.minDist < 2 {
		r.minDist = 2
	}
}

// Rule states how cases are generated and what makes one distinct and non-trivial.
func (r *Run) Rule(s string) { r.mu.Lock(); r.res.Rule = s; r.mu.Unlock() }

// Exhaustive marks the run as having enumerated a finite space completely.
func (r *Run) Exhaustive(b bool) { r.mu.Lock(); r.res.Exhaustive = b; r.mu.Unlock() }

// Eval counts n oracle evaluations.
func (r *Run) Eval(n int) { r.mu.Lock(); r.res.Evaluations += int64(n); r.mu.Unlock() }

// Count bumps a named counter shown in the evidence.
func (r *Run) Count(name string, n int) { r.mu.Lock(); r.res.Counters[name] += int64(n); r.mu.Unlock() }

// Counter reads a named counter.
func (r *Run) Counter(name string) int64 {
	r.mu.Lock()
	defer r.mu.Unlock()
	return r.res.Counters[name]
}

// Distinct registers a non-trivial case by its normalised key; duplicates are counted once.
func (r *Run) Distinct(key string) {
	h := fnv.New64a()
	h.Write([]byte(key))
	r.mu.Lock()
	r.distinct[h.Sum64()] = struct{}{}
	r.mu.Unlock()
}

// Signature registers an interleaving signature (order of labelled events seen in one execution).
func (r *Run) Signature(sig string) {
	h := fnv.New64a()
	h.Write([]byte(sig))
	r.mu.Lock()
	r.sigs[h.Sum64()] = struct{}{}
	r.mu.Unlock()
}

// Signatures returns the number of distinct signatures so far.
func (r *Run) Signatures() int { r.mu.Lock(); defer r.mu.Unlock(); return len(r.sigs) }

// Sample keeps the first few actual cases for the evidence file.
func (r *Run) Sample(v any) {
	r.mu.Lock()
	if len(r.res.Samples) < r.maxSamples {
		r.res.Samples = append(r.res.Samples, v)
	}
	r.mu.Unlock()
}

// Assume records an assumption / trusted base entry.
func (r *Run) Assume(s string) {
	r.mu.Lock()
	r.res.Assumptions = append(r.res.Assumptions, s)
	r.mu.Unlock()
}

// Extra records a free-form evidence value.
func (r *Run) Extra(k string, v any) { r.mu.Lock(); r.res.Extra[k] = v; r.mu.Unlock() }

// Inconclusive records a reason why this run could not observe enough.
func (r *Run) Inconclusive(why string) {
	r.mu.Lock()
	r.res.Inconclusive = append(r.res.Inconclusive, why)
	r.mu.Unlock()
}

// Violation records a refuting observation. fingerprint names the failing input class / call
// site (it is what known_findings.json is matched against); witness is written to a replay file.
// Only the first three witnesses per fingerprint are written out; all are counted.
func (r *Run) Violation(caseIdx int, fingerprint, what string, witness any) {
	r.mu.Lock()
	defer r.mu.Unlock()
	r.res.ViolationCount++
	r.fpSeen[fingerprint]++
	if r.fpSeen[fingerprint] > 3 {
		return
	}
	path := ""
	if err := os.MkdirAll(r.replayD, 0o755); err == nil {
		h := fnv.New32a()
		h.Write([]byte(fingerprint))
		path = filepath.Join(r.replayD, fmt.Sprintf("%s-s%d-c%d-%08x.json", r.Prop, r.seed, caseIdx, h.Sum32()))
		b, _ := json.MarshalIndent(map[string]any{
			"property": r.Prop, "seed": r.seed, "tier": r.tier, "case": caseIdx,
			"fingerprint": fingerprint, "what": what, "witness": witness,
		}, "", " ")
		_ = os.WriteFile(path, b, 0o644)
	}
	r.res.Violations = append(r.res.Violations, Violation{Fingerprint: fingerprint, What: what, Replay: path, Case: caseIdx})
	// Persist what is known so far: if the process later hangs or dies (a hostile input can do that to
	// the code under test), the driver still sees the violations recorded up to here.
	r.writePartialLocked()
}

func (r *Run) writePartialLocked() {
	if r.out == "" || r.finished {
		return
	}
	snap := r.res
	snap.Verdict = "violated"
	snap.Partial = true
	snap.DistinctNontrivial = len(r.distinct)
	snap.Signatures = len(r.sigs)
	snap.WallS = time.Since(r.start).Seconds()
	if snap.Samples == nil {
		snap.Samples = []any{}
	}
	b, err := json.Marshal(&snap)
	if err != nil {
		return
	}
	tmp := r.out + ".tmp"
	if err := os.WriteFile(tmp, b, 0o644); err == nil {
		_ = os.Rename(tmp, r.out)
	}
}

// Guard runs f and turns a panic into a violation with fingerprint "panic:<prefix>" and the stack as witness.
func (r *Run) Guard(caseIdx int, fpPrefix string, witness any, f func()) {
	defer func() {
		if p := recover(); p != nil {
			if _, ok := p.(AbortCase); ok {
				return
			}
			r.Violation(caseIdx, "panic:"+fpPrefix, fmt.Sprintf("panic: %v", p), map[string]any{"panic": fmt.Sprint(p), "stack": string(debug.Stack()), "input": witness})
		}
	}()
	f()
}

// AbortCase can be panicked by monitor code to leave a case early; Guard swallows it.
type AbortCase struct{}

// Violated reports whether any violation has been recorded.
func (r *Run) Violated() bool { r.mu.Lock(); defer r.mu.Unlock(); return r.res.ViolationCount > 0 }

// Finish decides the verdict and writes the result record atomically. Call it last (defer).
func (r *Run) Finish() {
	r.mu.Lock()
	defer r.mu.Unlock()
	if r.finished {
		return
	}
	r.finished = true
	r.res.DistinctNontrivial = len(r.distinct)
	r.res.Signatures = len(r.sigs)
	r.res.WallS = time.Since(r.start).Seconds()
	if !r.Replaying() {
		if r.res.Evaluations < r.minEval {
			r.res.Inconclusive = append(r.res.Inconclusive, fmt.Sprintf("only %d oracle evaluations (< %d required)", r.res.Evaluations, r.minEval))
		}
		if len(r.distinct) < r.minDist {
			r.res.Inconclusive = append(r.res.Inconclusive, fmt.Sprintf("only %d distinct non-trivial cases (< %d required)", len(r.distinct), r.minDist))
		}
	}
	switch {
	case r.res.ViolationCount > 0:
		r.res.Verdict = "violated"
	case len(r.res.Inconclusive) > 0:
		r.res.Verdict = "inconclusive"
	default:
		r.res.Verdict = "held"
	}
	sort.Strings(r.res.Assumptions)
	if r.res.Samples == nil {
		r.res.Samples = []any{}
	}
	b, err := json.MarshalIndent(&r.res, "", " ")
	if err != nil {
		r.T.Logf("vfkit: cannot marshal result: %v", err)
		return
	}
	r.T.Logf("vfkit: %s verdict=%s evaluations=%d distinct=%d signatures=%d violations=%d wall=%.1fs",
		r.Prop, r.res.Verdict, r.res.Evaluations, r.res.DistinctNontrivial, r.res.Signatures, r.res.ViolationCount, r.res.WallS)
	for _, v := range r.res.Violations {
		r.T.Logf("vfkit: violation fp=%q what=%s replay=%s", v.Fingerprint, v.What, v.Replay)
	}
	if r.out == "" {
		return
	}
	tmp := r.out + ".tmp"
	if err := os.WriteFile(tmp, b, 0o644); err == nil {
		_ = os.Rename(tmp, r.out)
	}
}

// ForEach runs f for every wanted case index in [0,n) on up to `workers` goroutines (0 = GOMAXPROCS).
// Cases must be independent; f derives all randomness from r.Rand(c). When replaying, only the
// replayed case runs.
func (r *Run) ForEach(n, workers int, f func(c int)) {
	if workers <= 0 {
		workers = runtime.GOMAXPROCS(0)
	}
	if r.Replaying() {
		if r.onlyCase < n {
			f(r.onlyCase)
		}
		return
	}
	var wg sync.WaitGroup
	next := int64(-1)
	for w := 0; w < workers; w++ {
		wg.Add(1)
		go func() {
			defer wg.Done()
			for {
				c := int(atomic.AddInt64(&next, 1))
				if c >= n {
					return
				}
				f(c)
			}
		}()
	}
	wg.Wait()
}
