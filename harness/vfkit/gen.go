//go:build verif

package vfkit

import (
	"math"
	"math/rand"
)

// Alphabet is the adversarial string alphabet: every separator that a key/codec format in
// thanos uses is in it, plus empty, multi-byte and digit strings.
var Alphabet = []string{"a", "b", "", ":", ";", ",", "=", "~", "!", "|", "\"", "é", "0", "1", "-", "/", "{", "}", " ", "\n", "\xff"}

// Str builds a string of 0..maxParts alphabet pieces. With utf8Only the invalid byte \xff is not used.
func Str(rng *rand.Rand, maxParts int, utf8Only bool) string {
	n := rng.Intn(maxParts + 1)
	s := ""
	for i := 0; i < n; i++ {
		p := Alphabet[rng.Intn(len(Alphabet))]
		if utf8Only && p == "\xff" {
			p = "z"
		}
		s += p
	}
	return s
}

// Pick returns a random element.
func Pick[T any](rng *rand.Rand, xs []T) T { return xs[rng.Intn(len(xs))] }

// Perm returns a shuffled copy.
func Perm[T any](rng *rand.Rand, xs []T) []T {
	out := append([]T(nil), xs...)
	rng.Shuffle(len(out), func(i, j int) { out[i], out[j] = out[j], out[i] })
	return out
}

// Sample is one float sample.
type Sample struct {
	T int64
	V float64
}

// ScrapeOpts shapes a generated scrape sequence.
type ScrapeOpts struct {
	Start    int64 // first timestamp (ms)
	Interval int64 // scrape interval (ms)
	Jitter   int64 // +- jitter (ms), < Interval/2
	N        int   // number of scrape slots
	GapProb  float64
	GapMax   int // slots skipped in a gap
}

// ScrapeTimes generates strictly increasing timestamps of a scrape loop with jitter and gaps.
func ScrapeTimes(rng *rand.Rand, o ScrapeOpts) []int64 {
	var ts []int64
	slot := int64(0)
	last := int64(math.MinInt64)
	for i := 0; i < o.N; i++ {
		if o.GapProb > 0 && rng.Float64() < o.GapProb && o.GapMax > 0 {
			slot += int64(1 + rng.Intn(o.GapMax))
		}
		t := o.Start + slot*o.Interval
		if o.Jitter > 0 {
			t += rng.Int63n(2*o.Jitter+1) - o.Jitter
		}
		if t <= last {
			t = last + 1
		}
		ts = append(ts, t)
		last = t
		slot++
	}
	return ts
}
