#!/bin/bash
# usage: mkmut.sh Cxx -> creates worktree /tmp/mut-Cxx and prints the prompt
id=$1
git -C /repo worktree add --detach /tmp/mut-$id HEAD >/dev/null 2>&1
python3 - "$id" <<'PY'
import json,sys
pid=sys.argv[1]
for l in open('/verif/properties.jsonl'):
    p=json.loads(l)
    if p['id']==pid:
        print(f"""You are testing how robust a semantic property of the thanos code base (Go) is against realistic regressions. You work ONLY in your own scratch git worktree /tmp/mut-{pid} (a checkout of the thanos repository at its pinned commit; offline sandbox, no network). Never touch /repo or /verif (do not even read /verif), and never work outside /tmp/mut-{pid}.

The property ({pid}): "{p['title']}"
Statement: {p['statement']}
It must hold for: {p['quantifier']['text']}
Code it is anchored in: {', '.join(p['anchors']['files'])}

Task: produce TWO independent, realistic changes to the thanos sources (each a separate patch against the clean worktree) that BREAK this property while the code still compiles and the package's existing tests still pass. Each change should look like a plausible refactoring/optimisation/bug-fix gone wrong that a reviewer could miss, and must need something specific to manifest — a particular interleaving, a crash or fault at a particular point, a multi-step sequence of operations, an unusual input, or two cooperating sites that each look fine alone — NOT something ordinary use would expose at once. The two changes should use different mechanisms/sites. Never use `git stash` (the stash is shared between all worktrees of this repository and other engineers work in sibling worktrees; use `git diff > file` and `git apply -R file` instead). Do not touch test files, go.mod, or pkg/verifhook; do not rename exported or unexported identifiers (keep function names and signatures stable); keep each patch small (a few lines to ~30 lines).

For each change also write a demonstration: a Go test file (name it zz_mutdemo_<n>_test.go in the relevant package, package-internal is fine) that FAILS with the change applied and PASSES on the clean worktree. The demonstration must be deterministic (no timing luck; if an interleaving is needed, force it with channels/hooks available in the test, or loop until a logical condition with a bounded number of iterations that reliably triggers).

How to build/test here: `cd /tmp/mut-{pid} && export GOFLAGS=-mod=mod GOPROXY=off && go test -tags slicelabels -vet=off -count=1 ./pkg/<package>/...` (run from inside the worktree; do NOT set GOTOOLCHAIN or GOSUMDB; the production build tag is `slicelabels`; first build takes a few minutes — use generous timeouts). "Existing tests still pass" means: the set of failing tests of the touched package(s) with `-tags slicelabels` AND without the tag is not worse than on the clean worktree (some tests already fail/ are flaky on the clean tree, especially without the tag; compare before/after, running the touched packages' tests before and after your change).

Deliverables, all inside /tmp/mut-{pid}/.mutants/ :
  m1/patch.diff  (git diff of the source change only, applies with `git apply` on the clean worktree)
  m1/demo_test.go (the demonstration test file) and m1/demo_path.txt (the path relative to the repo root where the test file must be placed, e.g. pkg/dedup/zz_mutdemo_1_test.go)
  m1/notes.md: what the change is, why it breaks the property, what it needs to manifest, exact commands you ran with their outcomes (existing tests before/after, demo before/after)
  m2/... likewise.
When you are done leave the worktree CLEAN (git status shows no modified tracked files, no stray test files; only the untracked .mutants/ directory). Your final message: a 10-line summary of both mutants.""")
PY
